#!/usr/bin/env python3
"""Runs the repository's baseline suite (guard off) and checks all stable_pass tests pass."""
import json, subprocess, sys, os, tempfile, xml.etree.ElementTree as ET
b = json.load(open("/root/.vp/BASELINE.json"))
out = tempfile.mktemp(suffix=".xml", dir="/tmp")
env = dict(os.environ); env.pop("OSU_VERIF", None)
cmd = b["cmd"].replace("<file>", out)
r = subprocess.run(cmd, shell=True, env=env, capture_output=True, text=True)
passed = set()
for tc in ET.parse(out).getroot().iter("testcase"):
    if not list(tc):
        passed.add(f"{tc.get('classname')}::{tc.get('name')}")
os.remove(out)
missing = [t for t in b["stable_pass"] if t not in passed]
print(r.stdout.strip().splitlines()[-1])
print("baseline stable_pass:", len(b["stable_pass"]), "missing:", missing)
sys.exit(1 if missing else 0)
