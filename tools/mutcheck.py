#!/usr/bin/env python3
"""tools/mutcheck.py FILE OLD NEW PROP...  - apply a one-off source mutation to /repo, run quick checks, revert.
Only for validating monitor sensitivity by hand; nothing is committed to /repo."""
import subprocess, sys, os
f, old, new, props = sys.argv[1], sys.argv[2], sys.argv[3], sys.argv[4:]
p = os.path.join("/repo/src/ocean_science_utilities", f)
s = open(p).read()
assert s.count(old) == 1, f"old occurs {s.count(old)} times"
dirty = subprocess.run("git -C /repo status --porcelain --untracked-files=no", shell=True, capture_output=True, text=True).stdout
assert not dirty.strip(), "repo dirty"
open(p, "w").write(s.replace(old, new))
try:
    for pr in props:
        r = subprocess.run(["./check", pr, "--tier", "quick"], capture_output=True, text=True, cwd="/verif")
        lines = [l[:300] for l in r.stdout.splitlines() if l.startswith(("VIOLATION", "HELD", "INCONCLUSIVE", "  monitor="))]
        print(pr, "rc=", r.returncode, "|", " ; ".join(lines[:4]))
finally:
    subprocess.run("git -C /repo checkout -- .", shell=True)
