#!/usr/bin/env python3
"""Prepare the scratch worktrees /tmp/wt/Cxx for another round of independently written property-breaking changes:
reset to /repo's HEAD, write _out/PROPERTY.txt (text of the property only) and _out/ALREADY_DONE.txt (one line per
existing seeded change of that property). Nothing from /verif except the property text and those one-liners is copied."""
import glob, json, os, shutil, subprocess, sys
props = {json.loads(l)["id"]: json.loads(l) for l in open("/verif/properties.jsonl")}
head = subprocess.check_output(["git", "-C", "/repo", "rev-parse", "HEAD"], text=True).strip()
ids = sys.argv[1:] or sorted(props)
for pid in ids:
    wt = f"/tmp/wt/{pid}"
    if not os.path.isdir(wt):
        subprocess.check_call(["git", "-C", "/repo", "worktree", "add", "--detach", wt, head], stdout=subprocess.DEVNULL)
    subprocess.check_call(["git", "-C", wt, "checkout", "-q", "--detach", head])
    subprocess.check_call(["git", "-C", wt, "checkout", "-q", "--", "."])
    out = f"{wt}/_out"
    keep = open(f"{out}/PROPERTY.txt").read() if os.path.exists(f"{out}/PROPERTY.txt") else None
    shutil.rmtree(out, ignore_errors=True)
    os.makedirs(out)
    p = props[pid]
    with open(f"{out}/PROPERTY.txt", "w") as f:
        f.write(keep if keep else f"{p['title']}\n\n{p['statement']}\n\nQuantified over: {p['quantifier']['text']}\n\n"
                f"Why the existing tests cannot settle it: {p['why_tests_cant']}\n\nAnchors: {json.dumps(p['anchors'])}\n")
    with open(f"{out}/ALREADY_DONE.txt", "w") as f:
        f.write("Regressions that other people already wrote for this property - do NOT repeat these ideas or close variants of them;\n"
                "find different code sites and different trigger conditions:\n")
        for m in sorted(glob.glob(f"/verif/seeded/{pid}-*/meta.json")):
            j = json.load(open(m))
            f.write(f"  - {j.get('summary','?')}  (needs: {j.get('needs','?')})\n")
    print(pid, "ready at", head[:7])
