#!/usr/bin/env python3
"""Seeded (independently written) property-breaking changes.

  tools/seeded.py verify <sid>            confirm in a scratch worktree: tests still pass with the patch, demo fails
                                          with it and passes without it
  tools/seeded.py run <sid> [--worktree]  run the quick checks of the property against the patch
                                          (default: git -C /repo apply, run, git -C /repo checkout -- . ;
                                           --worktree: scratch worktree + VERIF_REPO, does not touch /repo)
  tools/seeded.py runall [Cxx ...] [--worktree]   the same for every seeded change (of the given properties), one after another
  tools/seeded.py index                   regenerate seeded/INDEX.md
"""
import json, os, subprocess, sys, shutil, xml.etree.ElementTree as ET

V = os.path.dirname(os.path.dirname(os.path.abspath(__file__)))
S = os.path.join(V, "seeded")


def sh(cmd, **kw):
    return subprocess.run(cmd, shell=True, capture_output=True, text=True, **kw)


def worktree(path):
    sh(f"git -C /repo worktree remove --force {path}")
    shutil.rmtree(path, ignore_errors=True)
    r = sh(f"git -C /repo worktree add --detach {path} HEAD -q")
    assert r.returncode == 0, r.stderr


def verify(sid):
    d = os.path.join(S, sid)
    meta = json.load(open(os.path.join(d, "meta.json")))
    if meta.get("retired"):
        print(sid, "retired:", meta["retired"])
        return
    wt = f"/tmp/wt/verify-{sid}"
    worktree(wt)
    env = dict(os.environ, PYTHONPATH=f"{wt}/src")
    out = {}
    try:
        r = sh(f"/venv/bin/python {d}/demo.py", cwd=wt, env=env, timeout=1800)
        out["demo_without_patch_rc"] = r.returncode
        r = sh(f"git apply {d}/patch.diff", cwd=wt)
        assert r.returncode == 0, r.stderr
        r = sh(f"/venv/bin/python {d}/demo.py", cwd=wt, env=env, timeout=1800)
        out["demo_with_patch_rc"] = r.returncode
        out["demo_with_patch_tail"] = (r.stdout + r.stderr)[-400:]
        b = json.load(open("/root/.vp/BASELINE.json"))
        xml = f"/tmp/wt/verify-{sid}.xml"
        r = sh(f"/venv/bin/python -m pytest -q -p no:cacheprovider --timeout=900 --continue-on-collection-errors "
               f"--junitxml={xml} tests", cwd=wt, env=env, timeout=3600)
        passed = set()
        for tc in ET.parse(xml).getroot().iter("testcase"):
            if not list(tc):
                passed.add(f"{tc.get('classname')}::{tc.get('name')}")
        os.remove(xml)
        out["baseline_missing_with_patch"] = [t for t in b["stable_pass"] if t not in passed]
        out["tests_passed_with_patch"] = len(passed)
    finally:
        sh(f"git -C /repo worktree remove --force {wt}")
        shutil.rmtree(wt, ignore_errors=True)
    out["confirmed"] = (out.get("demo_without_patch_rc") == 0 and out.get("demo_with_patch_rc", 0) != 0
                        and not out.get("baseline_missing_with_patch"))
    meta["verification"] = out
    json.dump(meta, open(os.path.join(d, "meta.json"), "w"), indent=1)
    print(sid, "confirmed" if out["confirmed"] else "NOT CONFIRMED", out)


def run(sid, use_worktree=False, tier="quick"):
    d = os.path.join(S, sid)
    meta = json.load(open(os.path.join(d, "meta.json")))
    props = meta.get("run_checks") or [meta["property"]]
    if meta.get("retired"):
        print(sid, "retired:", meta["retired"])
        return
    env = dict(os.environ)
    res = {}
    if use_worktree:
        wt = f"/tmp/wt/run-{sid}"
        worktree(wt)
        r = sh(f"git apply {d}/patch.diff", cwd=wt)
        assert r.returncode == 0, r.stderr
        env["VERIF_REPO"] = wt
    else:
        assert not sh("git -C /repo status --porcelain --untracked-files=no").stdout.strip(), "/repo dirty"
        r = sh(f"git -C /repo apply {d}/patch.diff")
        assert r.returncode == 0, r.stderr
    try:
        for p in props:
            r = sh(f"./check {p} --tier {tier}", cwd=V, env=env, timeout=7200)
            lines = [l[:240] for l in r.stdout.splitlines() if l.startswith(("VIOLATION", "HELD", "INCONCLUSIVE", "  monitor="))]
            keys = sorted({l.split("key=")[1].split()[0] for l in lines if "key=" in l})
            res[p] = {"rc": r.returncode, "caught": r.returncode == 1, "keys": keys[:8]}
            print(sid, p, "rc=", r.returncode, keys[:6] or lines[-1:])
    finally:
        if use_worktree:
            sh(f"git -C /repo worktree remove --force {wt}")
            shutil.rmtree(wt, ignore_errors=True)
        else:
            sh("git -C /repo checkout -- .")
    meta.setdefault("check_results", {})[tier] = res
    json.dump(meta, open(os.path.join(d, "meta.json"), "w"), indent=1)


def index():
    rows = []
    for sid in sorted(os.listdir(S)):
        mp = os.path.join(S, sid, "meta.json")
        if not os.path.exists(mp):
            continue
        m = json.load(open(mp))
        cr = m.get("check_results", {})
        cell = []
        for tier, res in cr.items():
            for p, r in res.items():
                cell.append(f"{p}/{tier}: " + ("caught (" + ", ".join(r["keys"][:3]) + ")" if r["caught"] else f"MISSED rc={r['rc']}"))
        conf = m.get("verification", {}).get("confirmed")
        if m.get("retired"):
            cell.append("RETIRED: " + m["retired"])
        if m.get("not_reported"):
            cell.append("NOT REPORTED (by design): " + m["not_reported"])
        rows.append(f"| {sid} | {m['property']} | {m.get('summary','')} | {m.get('needs','')} | {'yes' if conf else 'no'} | {'; '.join(cell)} |")
    with open(os.path.join(S, "INDEX.md"), "w") as fh:
        fh.write("# Seeded property-breaking changes\n\nWritten by independent sub-agents (property text + scratch worktree only).\n\n"
                 "| id | property | change | needs in order to manifest | confirmed (tests pass, demo fails/passes) | check results |\n|---|---|---|---|---|---|\n")
        fh.write("\n".join(rows) + "\n")
    print("rows:", len(rows))


if __name__ == "__main__":
    cmd = sys.argv[1]
    if cmd == "verify":
        verify(sys.argv[2])
    elif cmd == "run":
        run(sys.argv[2], "--worktree" in sys.argv, "thorough" if "--thorough" in sys.argv else "quick")
    elif cmd == "runall":
        only = [a for a in sys.argv[2:] if not a.startswith("--")]
        for sid in sorted(os.listdir(S)):
            if os.path.exists(os.path.join(S, sid, "meta.json")) and (not only or sid.split("-")[0] in only):
                try:
                    run(sid, "--worktree" in sys.argv)
                except Exception as e:  # noqa
                    print(sid, "ERROR", repr(e)[:300])
    else:
        index()
