add("C01", "exploration",
    "Every call of frequency_moment/m0/m1/m2/hm0/tm01/tm02 made by a seeded workload of thousands of "
    "spectra x bands is judged by a postcondition recomputing the trapezoid from the raw arrays, plus "
    "metamorphic laws (scaling, additivity, period ordering and range). Held-on-K-executions, not a proof.",
    "trusts numpy float64, xarray accessors, the independent oracle in vmon/oracles/spectral.py; "
    "bin widths of non-uniform direction grids come from the object (judged by C02)",
    "runtime postcondition contracts (icontract) + metamorphic monitors over seeded workloads", "4/C01")
