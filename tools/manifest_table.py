add("C01", "exploration",
    "Every call of frequency_moment/m0/m1/m2/hm0/tm01/tm02 made by a seeded workload of thousands of "
    "spectra x bands is judged by a postcondition recomputing the trapezoid from the raw arrays, plus "
    "metamorphic laws (scaling, additivity, period ordering and range). Held-on-K-executions, not a proof.",
    "trusts numpy float64, xarray accessors, the independent oracle in vmon/oracles/spectral.py; "
    "bin widths of non-uniform direction grids come from the object (judged by C02)",
    "runtime postcondition contracts (icontract) + metamorphic monitors + history-on-one-object vs fresh-object monitor over seeded workloads", "4/C01")
add("C02", "exploration",
    "Postconditions on direction_step/e/a1/b1/a2/b2 recompute wrapped bin widths and weighted sums from the raw "
    "arrays for hundreds to tens of thousands of seeded 2D spectra on hostile direction grids (rotated, offset, "
    "non-uniform, 8..144 bins, NaN/zero bins); the 1D reduction is compared with the 2D object on every bulk "
    "parameter and carried-over variable. Held-on-K-executions.",
    "trusts numpy/xarray and the oracle; assumes all direction gaps < 180 degrees; accepts forward/backward/"
    "centred wrapped differences as bin width on non-uniform grids",
    "runtime postcondition contracts on class properties + paired-execution (2D vs 1D) monitor + history-on-one-object vs fresh-object monitor", "4/C02")
add("C03", "exploration",
    "Definitions judged by postconditions (independent band-weighted trapezoid, atan2, spread formula, ranges) on "
    "every call; rotation by k bins and mirror image judged by paired executions of the real code "
    "(quick 4 random k per case, thorough all k). Held-on-K-executions.",
    "trusts the oracle; energy without NaN; angular comparisons modulo 360 with 1e-6 degree bound",
    "runtime postcondition contracts + metamorphic (rotation/mirror) pair monitors + history-on-one-object vs fresh-object monitor", "4/C03")
add("C04", "exploration",
    "Postconditions recompute the first in-band argmax by explicit loop for spectra with ties, plateaus, "
    "edge peaks, out-of-band global peaks, NaN bins; batch members are re-run alone and compared; "
    "peak wavenumber judged by the dispersion residual at each point's own depth. Held-on-K-executions.",
    "bands whose in-band maximum is <= 0 are not judged (peak undefined); whole-NaN spectra excluded",
    "runtime postcondition contracts + batch-vs-single paired executions + history-on-one-object vs fresh-object monitor", "4/C04")
add("C12", "exploration",
    "Seeded spectra with analytic c*f^-4 ranges (both methods must return exactly c) and random spectra (peak oracle), "
    "all layouts, both conventions, non-default constants, 2D inputs vs their 1D reduction; closed form, log law, "
    "direction range and convention recomputed independently for every call. Held-on-K-executions.",
    "mean method judged only where an exact f^-4 range of >= 25 bins below fmax exists",
    "runtime postcondition monitors with closed-form oracle + metamorphic (scaling, 2D vs 1D, convention) pairs", "4/C12")
add("C17", "exploration",
    "Instants drawn as integer microseconds and rendered by the generator in every supported representation and "
    "container; worker processes run under five local time zones (TZ) so naive/local mix-ups are observable; "
    "round trips and packed integers judged against calendar fields built by the generator. Held-on-K-executions.",
    "float epoch inputs exact to 1 microsecond; only packed integers that the documented rule decodes unambiguously",
    "differential monitoring against generator-built expected instants over seeded inputs x process time zones", "4/C17")
add("C20", "exploration",
    "All 36 stencils are enumerated and compared with Lagrange-basis integrals in exact rational arithmetic "
    "(exhaustive for that clause); integrate() is run on seeded polynomial/random signals over uniform, jittered "
    "and gapped grids and every single step increment is classified and judged (exact-polynomial / trapezoid / "
    "either), plus linearity and start value; thorough adds NUMBA_BOUNDSCHECK=1 (numba's bounds sanitizer).",
    "width of the trapezoid zone after a disturbance is not fixed by the property; fractions.Fraction arithmetic trusted",
    "per-step trace monitor over executions + exhaustive enumeration of the finite stencil table + bounds-checked JIT", "4/C20")
add("C07", "exploration",
    "Hundreds of thousands to tens of millions of (w,d) points per run across all regimes, scalars, small calls, "
    "dense sweeps across the two internal switches, and spectra with per-point depths; every returned k is judged "
    "by an independent residual, asymptotes, cg against the analytic dw/dk, monotonicity on sweeps. One recorded "
    "known finding (sub-1e-6 non-monotonicity in d at kd=5). Held-on-K-executions.",
    "g=9.81; oracle true_k by bisection; d-monotonicity required only above 1e-6 relative",
    "runtime residual monitors over seeded and adversarial sweeps + history-on-one-object vs fresh-object monitor (depth changed in place) + bounds-checked JIT in thorough", "4/C07")
add("C13", "exploration",
    "Seeded datasets/spectra x grids x targets (nodes, end points, mid points, outside, datetime forms) judged "
    "against an explicit-search reference with the NaN/half-weight rule, scipy RegularGridInterpolator for "
    "multi-coordinate grids, and derived monitors (bitwise at nodes, between neighbours, exact for linear data, "
    "nearest picks the nearer neighbour, pass-through identical). One recorded known finding (outside target "
    "poisons inside targets in multi-coordinate calls). Held-on-K-executions.",
    "node-level NaN rule for rank>1 (NaN patterns generated as whole nodes); exact ties (t=1/2, valid weight = 1/2) accept either outcome",
    "differential monitoring against independent reference implementations over seeded hostile inputs", "4/C13")
add("C14", "exploration",
    "Periodic coordinates judged against linear interpolation on the period-extended grid (targets to +-1000, "
    "+360k shifts), angular data judged by on-shorter-arc / node / bisector / range monitors with hostile jumps "
    "(just below and above 180, both senses), interpolate_periodic / data frames / tracks against exact "
    "shortest-arc linear, gridded data at antimeridian-crossing track points against a tri-linear reference on the "
    "longitude-extended grid. Held-on-K-executions.",
    "angular tolerance 3e-5 deg / resultant length (complex64 accumulator); jumps of exactly 180 excluded; "
    "longitude data range not judged (only equivalence modulo 360)",
    "differential + geometric (arc membership) monitors over seeded hostile angular workloads", "4/C14")
add("C15", "exploration",
    "History workload over a pool of spectra: every public operation (incl. ones that raise) is followed by a "
    "byte/dtype/dims/shape comparison of every variable of every pool member; deep copies are overwritten to prove "
    "independence; concatenate-then-select for N in 1..6 and every i via isel/sel/[]; flatten pairing against "
    "unravel_index; netCDF round trips incl. NaN and infinite depth. Held-on-K-executions.",
    "in-place operations (fillna, multiply(inplace=True)) excluded; concatenation along a *new* dimension only "
    "(scalar members -> time, or flattened join), as the property states",
    "snapshot-diff history monitor (operand immutability) + round-trip monitors over random operation sequences", "4/C15")
add("C16", "exploration",
    "Seeded spectra x sampling rates x even/odd lengths x six components: sample variances compared with an "
    "independently resampled spectral sum (rtol 1e-9, exact identity of the inverse real FFT), axis length and "
    "spacing, seed reproducibility incl. single-bit seed differences, sqrt(c) scaling. Held-on-K-executions.",
    "population variance of the nfft samples; scalar-layout spectra without NaN; unidirectional 2D spectra",
    "runtime conservation monitor (time-domain variance vs spectral sum) + metamorphic seed/scale pairs", "4/C16")
add("C18", "exploration",
    "Bounded-exhaustive request histories (every sequence up to length 4 quick / 5 thorough over 9 operation symbols x "
    "3 size limits x sequential/parallel) plus long random histories with injected download delays are executed on "
    "the real FileCache; after every operation an executable reference model judges returned bytes and names, "
    "hit/miss contact log, size bound and enlargement rule, the LRU eviction relation, entry count vs directory, "
    "foreign files, and an audit-hook trace of every file-system write in the directory. The bounded part is "
    "enumerated completely; nothing is claimed beyond those bounds.",
    "reference model in vmon/cachelab.py is an oracle for executions, not explored in place of the code; harness ages "
    "files between operations so timestamp granularity never decides recency; eviction judged as a relation (ties)",
    "history + executable reference model checker, audit-hook trace monitor, bounded-exhaustive workload", "4/C18")
add("C19", "fault_enumeration",
    "Every fault kind (not-found, exception before/after partial write, post-processing exception, validation "
    "rejection with and without failing re-fetch) at every download position of every request of every history up to "
    "length 2 (quick) / 3 (thorough), tolerant and strict, sequential and parallel (delays make the failing download "
    "finish first or last), each followed by same-session retry and by reopening the directory; every executed line "
    "of the cache as an exception-style crash point; os._exit crashes in a subprocess. Enumerated completely within "
    "those bounds.",
    "a crash is modelled as abandoning the FileCache object (exception) or killing the process (os._exit) followed by "
    "a new FileCache on the directory; straggling pool workers are joined before the directory is examined",
    "fault and crash-point enumeration (instrumented resource + sys.monitoring failpoints) with reopen oracle", "4/C19")
add("C05", "exploration",
    "All four estimator variants are run on realisable (von-Mises mixture) and unrealisable/noisy moment quadruples, "
    "N in 8..180, input ranks 0..3; every returned distribution is judged for finiteness, non-negativity and unit "
    "integral per frequency, every exception or interpreter crash is a violation; spectrum level 1D->2D->1D "
    "conservation, carried variables and batch-row-vs-single comparisons; thorough adds NUMBA_BOUNDSCHECK=1. The "
    "evidence reports how many inputs were unrealisable and how many forced the Newton fallback. Held-on-K-executions.",
    "uniform direction grids; finite moments with a1^2+b1^2<1; the shadow run of the pure-Python solver body is "
    "informational only",
    "runtime postcondition monitors on the estimator boundary + crash isolation per worker + bounds-checked JIT", "4/C05")
add("C06", "exploration",
    "Von-Mises mixtures resolved by the grid (N in 24..144): four-moment error of MEM2 Newton/scipy against the stated "
    "0.01, Newton-vs-scipy 0.02, MEM against an independent closed-form Lygre-Krogstad implementation (itself "
    "verified on a 4096-point grid), rotation by k bins (quick 4 random k, thorough all k) and mirror of the input "
    "moments vs rolled/mirrored output, the constraint Jacobian vs central finite differences, and the hard cases "
    "read from the repository's test file at run time with all 36 rotations and the mirror. Held-on-K-executions.",
    "fidelity judged only where the grid resolves the distribution (mixtures >= 1.5 bins by construction; shipped "
    "hard cases with circular spread >= 1.3 bins, i.e. cases 0-3)",
    "metamorphic (rotation/mirror) pair monitors + moment-recomputation oracle + finite-difference oracle", "4/C06")
add("C08", "exploration",
    "Wind seas, mixtures, swell and random spectra x winds x depths x parameter sets x ST4/ST6/Romero: every public "
    "rate / bulk_rate / imbalance result is judged by postconditions on sign, support (zero-energy bins, upwind "
    "bins), linearity at fixed roughness, bulk == sum(rate*df*dtheta) with the spectrum's own bin widths, imbalance "
    "composition; batches are re-run point by point and shuffled; thorough repeats under NUMBA_NUM_THREADS 1/16 and "
    "NUMBA_BOUNDSCHECK=1. Held-on-K-executions.",
    "bins within 1e-9 of perpendicular not judged; points whose implicit roughness is NaN are evaluated with a supplied roughness",
    "runtime postcondition monitors composed from public API + batch/shuffle/thread-count paired executions", "4/C08")
add("C09", "exploration",
    "Paired executions of the real code on a spectrum/wind and on its joint rotation by k bins (quick 3 random k, "
    "thorough all k) and its mirror image, N in {16,24,36}: fields must be the rolled/mirrored originals, bulk rates, "
    "roughness, stress magnitude and inverted U10 unchanged, stress/dissipation/inverted directions shifted or "
    "negated modulo 360. Held-on-K-executions.",
    "fields at 1e-9 of the field maximum with the original's roughness supplied to both members; solver-derived "
    "scalars at 1e-6; angles at 1e-4 degrees",
    "metamorphic (joint rotation / mirror) pair monitors on the real kernels", "4/C09")
add("C10", "exploration",
    "Charnock: every returned z0 (scalar/array/DataArray, NaNs, with/without viscous term) is inserted into the "
    "implicit equation with the bound implied by the solver's own stopping rule, drag identity, monotonicity on "
    "sorted sweeps. Janssen: for each wind sea x wind the stress-balance function is scanned independently through "
    "the public stress() on 200 roughness values; where it is defined everywhere with exactly one sign change the "
    "returned roughness must balance to 1e-4 relative; other cases are counted, not judged. Held-on-K-executions.",
    "single-root precondition decided by the 200-point scan; default physical constants",
    "runtime residual monitors (implicit-equation insertion) + independent scan of the balance function", "4/C10")
add("C11", "exploration",
    "For wind seas, mixtures and low swell x st4/st4, st4/st6 x with/without dE/dt x both entry points: the returned "
    "U10 is judged by re-evaluating the balance through the public API at u10 and u10+-0.03 m/s, zero-dissipation "
    "=> 0, direction identity, agreement of the two entry points, and an independent 2..40 m/s scan of the balance "
    "for the non-degeneracy clause. One recorded known finding (first-guess-sensitive NaN). Held-on-K-executions.",
    "root bracketed within +-0.03 m/s or |G| <= 0.03|G'|; smooth rate-of-change spectra (dE/dt proportional to E)",
    "runtime residual monitor (balance re-evaluation) + independent scan oracle + entry-point differential", "4/C11")
