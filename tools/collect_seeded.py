#!/usr/bin/env python3
"""tools/collect_seeded.py Cxx [offset]  - import a sub-agent's deliverables from /tmp/wt/Cxx/_out into /verif/seeded/Cxx-N/"""
import json, os, re, shutil, sys
V = os.path.dirname(os.path.dirname(os.path.abspath(__file__)))
pid = sys.argv[1]
offset = int(sys.argv[2]) if len(sys.argv) > 2 else 0
src = f"/tmp/wt/{pid}/_out"
notes = open(os.path.join(src, "notes.md")).read() if os.path.exists(os.path.join(src, "notes.md")) else ""
for n in (1, 2, 3):
    pf, df = os.path.join(src, f"patch{n}.diff"), os.path.join(src, f"demo{n}.py")
    if not (os.path.exists(pf) and os.path.exists(df)):
        continue
    sid = f"{pid}-{n + offset}"
    d = os.path.join(V, "seeded", sid)
    os.makedirs(d, exist_ok=True)
    shutil.copy(pf, os.path.join(d, "patch.diff"))
    shutil.copy(df, os.path.join(d, "demo.py"))
    # the part of the notes that talks about this patch
    parts = re.split(r"(?im)^#+ .*patch\s*%d.*$|^\*\*patch\s*%d.*$|^patch\s*%d\b.*$" % (n, n, n), notes)
    excerpt = (parts[1] if len(parts) > 1 else notes)[:1500].strip()
    meta = {"id": sid, "property": pid, "author": "independent sub-agent (saw only the property text and a scratch worktree)",
            "summary": "", "needs": "", "agent_notes_excerpt": excerpt,
            "files": sorted({l[6:].strip() for l in open(pf) if l.startswith("+++ b/")})}
    mp = os.path.join(d, "meta.json")
    if os.path.exists(mp):
        old = json.load(open(mp))
        for k in ("summary", "needs", "verification", "check_results", "run_checks"):
            if k in old and old[k]:
                meta[k] = old[k]
    json.dump(meta, open(mp, "w"), indent=1)
    print("collected", sid, meta["files"])
