#!/usr/bin/env python3
"""Regenerates MANIFEST.json from the table below (run after adding a property module)."""
import json, os
V = os.path.dirname(os.path.dirname(os.path.abspath(__file__)))
BASE = ("cd /repo && /venv/bin/python -m pytest -ra -q -p no:cacheprovider --timeout=900 "
        "--continue-on-collection-errors")
CHECKS = {}
NA = {}
def add(pid, category, text, note, technique, ref):
    CHECKS[pid] = dict(category=category, text=text, note=note, technique=technique, ref=ref)

exec(open(os.path.join(V, "tools", "manifest_table.py")).read())

props = [json.loads(l)["id"] for l in open(os.path.join(V, "properties.jsonl"))]
checks = []
for pid in props:
    if pid not in CHECKS:
        NA.setdefault(pid, "check not built yet in this round; see DESIGN.md section 4 for the planned monitor")
        continue
    c = CHECKS[pid]
    checks.append({
        "property_id": pid,
        "quick_cmd": f"./check {pid} --tier quick",
        "thorough_cmd": f"./check {pid} --tier thorough",
        "evidence_file": f"/verif/evidence/{pid}.json",
        "replay_cmd_template": f"./check {pid} --replay {{path}}",
        "engine": "vmon",
        "level_claimed": {"category": c["category"], "text": c["text"], "design_ref": c["ref"]},
        "level_note": c["note"],
        "technique": c["technique"],
    })
man = {
    "version": 1,
    "setup_cmd": "./check --setup",
    "hooks": {"guard": "OSU_VERIF", "enable": "no source hooks: monitors are attached from outside "
              "(icontract postconditions on class attributes, instrumented RemoteResource, sys.monitoring, "
              "sys.addaudithook); checks export OSU_VERIF=1 for uniformity",
              "baseline_off_cmd": BASE, "source_commits": [], "add_only": True},
    "engines": [{"name": "vmon", "path": "/verif/vmon", "serves_properties": sorted(CHECKS),
                 "kind_free_text": "runtime monitoring: seeded hostile workloads on the real code in "
                 "isolated worker processes; postcondition contracts, reference-model history checkers, "
                 "metamorphic pair monitors; three-valued verdict"}],
    "checks": checks,
    "not_applicable": [{"property_id": k, "reason": v} for k, v in sorted(NA.items()) if k not in CHECKS],
    "notes": "All checks run /repo's working tree (editable install) with a numba cache keyed by a hash of src/.",
}
json.dump(man, open(os.path.join(V, "MANIFEST.json"), "w"), indent=1)
print("checks:", len(checks), "not_applicable:", len(man["not_applicable"]))
