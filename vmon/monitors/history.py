"""History-vs-fresh-object monitor for spectrum objects.

One spectrum object lives through a random history of *reads* (queries with random arguments) and *modifications*
(documented in-place operations). Every read is compared, bit for bit, with the same read on a reference object that
was freshly built from the generator case and has only seen the modifications (none of the earlier reads). A difference
means that some earlier call left something behind on the object: a memoised result that a modification did not
invalidate, or a query that wrote into the object's own arrays.

Reads and modifications are closures created by the property module:
    read = (name, fn(obj) -> array-like)
    mod  = (name, fn(obj) -> None)
"""
from __future__ import annotations

import numpy as np

from ..core import guarded
from ..gens import spectra as gs


def _arr(v):
    v = getattr(v, "values", v)
    if isinstance(v, (tuple, list)):
        return [_arr(x) for x in v]
    return np.asarray(v)


def _same(a, b):
    if isinstance(a, list) or isinstance(b, list):
        return isinstance(a, list) and isinstance(b, list) and len(a) == len(b) and all(_same(x, y) for x, y in zip(a, b))
    if a.shape != b.shape:
        return False
    if a.dtype.kind in "fc" or b.dtype.kind in "fc":
        return bool(np.array_equal(a, b, equal_nan=True))
    return bool(np.array_equal(a, b))


def run_history(ctx, prop, c, script, reads, mods, build=gs.build, tag="history"):
    """script: list of ("read", index, seed) / ("mod", index, seed); reads/mods: factories
       reads[i](seed) -> (name, fn) ; mods[i](seed) -> (name, fn)"""
    s = build(c)
    applied = []
    nreads = 0
    for step, (kind, idx, seed) in enumerate(script):
        wit = lambda: {"gen": c, "history": script[:step + 1], "tag": tag}  # noqa
        if kind == "mod":
            name, fn = mods[idx % len(mods)](seed)
            ok, _ = guarded(ctx, f"{prop}.no-exception", lambda: fn(s), wit, key=f"{prop}:{tag}:mod-raised:{name.split(chr(40))[0]}")
            if ok:
                applied.append((name, fn))
                ctx.count(f"{prop}.history_mod:{name}")
            continue
        name, fn = reads[idx % len(reads)](seed)
        ok, got = guarded(ctx, f"{prop}.no-exception", lambda: fn(s), wit, key=f"{prop}:{tag}:read-raised:{name.split(chr(40))[0]}")
        if not ok:
            continue
        ref = build(c)
        try:
            for _, m in applied:
                m(ref)
            want = fn(ref)
        except Exception:
            # the fresh object raises for this query as well: nothing to compare with
            ctx.count(f"{prop}.history_reference_raised")
            continue
        nreads += 1
        ga, wa = _arr(got), _arr(want)
        ctx.check(f"{prop}.history==fresh-object", _same(ga, wa), wit,
                  {"read": name, "step": step, "after_mods": [n for n, _ in applied], "on_history_object": ga,
                   "on_fresh_object": wa}, key=f"{prop}:{tag}:{name.split('(')[0]}")
    ctx.count(f"{prop}.history_reads_compared", nreads)
    return nreads


# ------------------------------------------------------------------ standard modifications of a spectrum object
def band_from(seed, f):
    rng = np.random.default_rng(seed)
    f = np.asarray(f, float)
    u = rng.uniform()
    if u < 0.3 or len(f) < 3:
        return 0.0, np.inf
    lo, hi = sorted(rng.uniform(float(f[0]), float(f[-1]), 2))
    if u < 0.5:
        return float(lo), np.inf
    if u < 0.7:
        # band edges exactly on grid frequencies
        i, j = sorted(rng.integers(0, len(f), 2))
        return float(f[i]), float(f[max(j, i + 1) if max(j, i + 1) < len(f) else len(f) - 1])
    return float(lo), float(hi)


def spectrum_mods(c, with_depth=True):
    """factories seed -> (name, fn(obj)); all of them are documented in-place operations of the classes"""
    nf = len(c["freq"])
    is2d = "dir" in c and c.get("kind") == "2d"

    def m_multiply_f(seed):
        rng = np.random.default_rng(seed)
        ramp = rng.uniform(0.1, 3.0, nf) * np.linspace(0.2, 3.0, nf) ** float(rng.choice([-2, 2]))
        return "multiply(frequency ramp, inplace=True)", lambda s: s.multiply(ramp, ["frequency"], inplace=True) and None

    def m_multiply_d(seed):
        rng = np.random.default_rng(seed)
        nd = len(c["dir"])
        fac = rng.uniform(0.05, 3.0, nd)
        return "multiply(direction factor, inplace=True)", lambda s: s.multiply(fac, ["direction"], inplace=True) and None

    def m_fillna(seed):
        return "fillna(0)", lambda s: s.fillna(0.0)

    def m_setitem(seed):
        rng = np.random.default_rng(seed)
        ramp = rng.uniform(0.2, 2.0, nf)

        def fn(s):
            import xarray
            s["variance_density"] = s.dataset["variance_density"] * xarray.DataArray(ramp, dims=["frequency"])
        return "__setitem__('variance_density')", fn

    def m_dataset_write(seed):
        rng = np.random.default_rng(seed)
        ramp = rng.uniform(0.2, 2.0, nf)

        def fn(s):
            import xarray
            s.dataset["variance_density"] = s.dataset["variance_density"] * xarray.DataArray(ramp, dims=["frequency"])
        return "dataset['variance_density'] = ...", fn

    def m_depth(seed):
        def fn(s):
            import xarray
            rng = np.random.default_rng(seed)  # inside: the same values every time the modification is replayed
            old = s.dataset["depth"]
            new = rng.uniform(2.0, 80.0, old.shape) if rng.uniform() < 0.8 else np.full(old.shape, np.inf)
            s["depth"] = xarray.DataArray(new, dims=old.dims, coords=old.coords)
        return "__setitem__('depth')", fn

    def m_moments(seed):
        rng = np.random.default_rng(seed)
        q = float(rng.uniform(0.2, 0.9))

        def fn(s):
            for nm in ("a1", "b1"):
                s[nm] = s.dataset[nm] * q
        return "__setitem__('a1','b1')", fn

    mods = [m_multiply_f, m_fillna, m_setitem, m_dataset_write]
    if is2d:
        mods.append(m_multiply_d)
    else:
        mods.append(m_moments)
    if with_depth:
        mods.append(m_depth)
    return mods


def random_script(rng, nsteps, nreads, nmods, pmod=0.3):
    out = []
    for i in range(nsteps):
        if i > 0 and nmods and rng.uniform() < pmod:
            out.append(["mod", int(rng.integers(0, nmods)), int(rng.integers(0, 2 ** 31))])
        else:
            out.append(["read", int(rng.integers(0, nreads)), int(rng.integers(0, 2 ** 31))])
    return out


def reads_from(c, banded=(), plain=(), calls=()):
    """read factories: banded = method names taking (fmin, fmax); plain = property names; calls = (label, fn(obj))"""
    f = c["freq"]
    out = []
    for name in banded:
        def fac(seed, name=name):
            band = band_from(seed, f)
            return f"{name}({band[0]:.4g},{band[1]:.4g})", lambda s: getattr(s, name)(*band)
        out.append(fac)
    for name in plain:
        def fac(seed, name=name):
            return name, lambda s: getattr(s, name)
        out.append(fac)
    for label, fn in calls:
        def fac(seed, label=label, fn=fn):
            return label, fn
        out.append(fac)
    return out


def judge_history(ctx, prop, c, rng, reads, mods, nsteps=8, tag="history"):
    script = random_script(rng, nsteps, len(reads), len(mods))
    ctx.case((prop, "history", c["kind"], c["layout"], tuple(k for k, _, _ in script)), nontrivial=any(k == "mod" for k, _, _ in script),
             sample={"kind": c["kind"], "layout": c["layout"], "script": [[k, i] for k, i, _ in script]})
    return run_history(ctx, prop, c, script, reads, mods, tag=tag)
