"""Runtime contracts (icontract postconditions) on the repository's spectrum classes.

Each postcondition recomputes the expected value from the object's *raw arrays* with the
independent oracle and records the comparison in the run context; it never raises (a
raising contract would abort what it observes) - the verdict is taken from the recorded
evaluations.  Because they sit on the class, every call made by any workload (including the
repository's own tests, see vmon/pytest_plugin.py) is observed.
"""
from __future__ import annotations

import math

import icontract
import numpy as np

from ..oracles import spectral as osp

_installed = {}
EPS = np.finfo(float).eps


class PostBroken(Exception):
    pass


# ----------------------------------------------------------------------- raw access
def ds_to_case(obj):
    ds = obj.dataset
    out = {"cls": type(obj).__name__, "vars": {}, "coords": {}}
    for name in ds.variables:
        v = ds[name]
        vals = v.values
        entry = {"dims": list(v.dims), "values": np.asarray(vals)}
        if name in ds.coords:
            out["coords"][str(name)] = entry
        else:
            out["vars"][str(name)] = entry
    return out


def case_to_obj(case):
    import xarray
    from ocean_science_utilities.wavespectra import spectrum as sp
    coords = {k: (v["dims"], np.asarray(v["values"])) for k, v in case["coords"].items()}
    data = {k: (v["dims"], np.asarray(v["values"])) for k, v in case["vars"].items()}
    ds = xarray.Dataset(data_vars=data, coords=coords)
    return getattr(sp, case["cls"])(ds)


def raw(obj):
    """returns dict f, d (or None), E (lead..., nf[, nd]) , lead shape"""
    ds = obj.dataset
    vd = ds["variance_density"]
    f = np.asarray(ds["frequency"].values, dtype=float)
    if "direction" in vd.dims:
        arr = vd.transpose(..., "frequency", "direction").values
        d = np.asarray(ds["direction"].values, dtype=float)
        lead = arr.shape[:-2]
    else:
        arr = vd.transpose(..., "frequency").values
        d = None
        lead = arr.shape[:-1]
    return {"f": f, "d": d, "E": np.asarray(arr, dtype=float), "lead": lead}


def oracle_step(obj, r):
    """direction bin widths used for *derived* quantities: 360/N on uniform grids; on
    non-uniform grids the object's own public direction_step (judged separately by C02)."""
    d = r["d"]
    if osp.is_uniform_dir(d):
        return np.full(len(d), 360.0 / len(d))
    return np.asarray(_orig_direction_step(obj).values, dtype=float)


def oracle_e(obj, r=None):
    r = r or raw(obj)
    if r["d"] is None:
        return r["E"]
    return osp.e_of_2d(r["E"], oracle_step(obj, r))


def oracle_moments(obj, r=None):
    """(e, a1, b1, a2, b2) with shape lead+(nf,)"""
    r = r or raw(obj)
    if r["d"] is None:
        ds = obj.dataset
        return (r["E"],) + tuple(
            np.asarray(ds[n].transpose(..., "frequency").values, dtype=float)
            for n in ("a1", "b1", "a2", "b2"))
    return osp.dir_moments(r["E"], r["d"], oracle_step(obj, r))


def _vals(result):
    return np.asarray(getattr(result, "values", result), dtype=float)


_orig_direction_step = None


# ----------------------------------------------------------------------- install
def install(ctx, groups=("C01", "C02", "C03", "C04")):
    """Attach the postconditions to the classes (idempotent per process)."""
    global _orig_direction_step
    from ocean_science_utilities.wavespectra import spectrum as sp

    if _installed.get("done"):
        _installed["ctx"][0] = ctx
        return
    box = [ctx]
    _installed["ctx"] = box
    _installed["done"] = True
    WS, FDS = sp.WaveSpectrum, sp.FrequencyDirectionSpectrum
    _orig_direction_step = FDS.direction_step.fget

    def witness(self, method, **kw):
        def mk():
            c = ds_to_case(self)
            c["method"] = method
            c["args"] = kw
            return c
        return mk

    def nonneg(r):
        E = r["E"]
        return not np.any(E[~np.isnan(E)] < 0)

    # ---------------- C01
    def post_frequency_moment(self, power, fmin, fmax, result):
        c = box[0]
        r = raw(self)
        e = oracle_e(self, r)
        want, mag = osp.moment(e, r["f"], power, fmin, fmax)
        c.close("C01.frequency_moment==trapz", _vals(result), want,
                atol=64 * EPS * float(np.max(mag, initial=0.0)) + 1e-300, rtol=1e-12,
                case=witness(self, "frequency_moment", power=power, fmin=fmin, fmax=fmax),
                key="C01:moment")
        return True

    def mk_post_ratio(name, fn, powers):
        def post(self, fmin, fmax, result):
            c = box[0]
            r = raw(self)
            if not nonneg(r):
                return True
            e = oracle_e(self, r)
            ms = [osp.moment(e, r["f"], p, fmin, fmax)[0] for p in powers]
            with np.errstate(divide="ignore", invalid="ignore"):
                want = fn(*ms)
            c.close(f"C01.{name}", _vals(result), want, atol=1e-300, rtol=1e-10,
                    case=witness(self, name, fmin=fmin, fmax=fmax), key=f"C01:{name}")
            return True
        return post

    specs = {
        "m0": (lambda m0: m0, (0,)),
        "m1": (lambda m1: m1, (1,)),
        "m2": (lambda m2: m2, (2,)),
        "hm0": (lambda m0: 4 * np.sqrt(m0), (0,)),
        "tm01": (lambda m0, m1: m0 / m1, (0, 1)),
        "tm02": (lambda m0, m2: np.sqrt(m0 / m2), (0, 2)),
    }
    if "C01" in groups:
        WS.frequency_moment = icontract.ensure(post_frequency_moment, error=PostBroken)(
            WS.frequency_moment)
        for name, (fn, powers) in specs.items():
            setattr(WS, name, icontract.ensure(mk_post_ratio(name, fn, powers), error=PostBroken)(
                getattr(WS, name)))

    # ---------------- C02 (properties of the 2D class)
    def wrap_property(cls, name, post):
        prop = getattr(cls, name)
        fget = prop.fget

        def getter(self):
            result = fget(self)
            try:
                post(self, result)
            except Exception as e:  # monitor must not disturb the program
                box[0].note(f"monitor {name} raised {e!r}")
            return result
        getter.__name__ = name
        setattr(cls, name, property(getter))

    def post_direction_step(self, result):
        c = box[0]
        d = np.asarray(self.dataset["direction"].values, dtype=float)
        got = _vals(result)
        cands = osp.dir_step_candidates(d)
        w = witness(self, "direction_step")
        ok_shape = got.shape == d.shape
        c.check("C02.direction_step:shape", ok_shape, w, key="C02:direction_step")
        if not ok_shape:
            return
        c.check("C02.direction_step>0", bool(np.all(got > 0)), w,
                {"step": got}, key="C02:direction_step")
        c.close("C02.direction_step:sum=360", np.sum(got), 360.0, atol=1e-9, case=w,
                key="C02:direction_step")
        if osp.is_uniform_dir(d):
            c.close("C02.direction_step==360/N", got, np.full(len(d), 360.0 / len(d)), atol=1e-9,
                    case=w, key="C02:direction_step")
        else:
            ok = np.ones(len(d), dtype=bool)
            for i in range(len(d)):
                ok[i] = any(abs(got[i] - cand[i]) <= 1e-9 for cand in cands.values())
            c.check("C02.direction_step==wrapped-neighbour-difference", bool(ok.all()), w,
                    {"step": got, "cands": {k: v for k, v in cands.items()}},
                    key="C02:direction_step")

    def mk_post_dirmoment(idx, name):
        def post(self, result):
            c = box[0]
            r = raw(self)
            om = oracle_moments(self, r)
            want = om[idx]
            got = _vals(result)
            e = om[0]
            scale = np.abs(np.where(np.isnan(r["E"]), 0, r["E"])).sum(axis=-1) * 360.0 / len(r["d"])
            if idx == 0:
                c.close("C02.e==sum(E*step)", got, want, atol=64 * EPS * float(np.max(scale, initial=0)) + 1e-300,
                        rtol=1e-12, case=witness(self, name), key="C02:e")
            else:
                # where e==0 the moment is 0/0; positions must agree (NaN)
                c.close(f"C02.{name}==weighted-sum/e", got, want, atol=1e-11, rtol=1e-10,
                        case=witness(self, name), key=f"C02:{name}")
                if nonneg(r):
                    pos = e > 0
                    g = got[pos]
                    c.check(f"C02.|{name}|<=1", bool(np.all(np.abs(g) <= 1 + 1e-12)),
                            witness(self, name), {"max": float(np.max(np.abs(g), initial=0))},
                            key=f"C02:{name}:bound")
        return post

    if "C02" in groups:
        wrap_property(FDS, "direction_step", post_direction_step)
        for i, n in enumerate(("e", "a1", "b1", "a2", "b2")):
            wrap_property(FDS, n, mk_post_dirmoment(i, n))

    # ---------------- C03
    def weighted(self, r, idx, fmin, fmax):
        om = oracle_moments(self, r)
        e = om[0]
        prop = np.where(np.isnan(om[idx]), 0.0, om[idx])
        num, _ = osp.moment(prop * e, r["f"], 0, fmin, fmax)
        # e NaN -> the implementation's np.trapz propagates NaN; outside C03's quantifier
        den, _ = osp.moment(e, r["f"], 0, fmin, fmax)
        with np.errstate(divide="ignore", invalid="ignore"):
            return num / den, den

    def e_has_nan(self, r):
        return bool(np.isnan(oracle_e(self, r)).any())

    def mk_post_mean(name, idx):
        def post(self, fmin, fmax, result):
            c = box[0]
            r = raw(self)
            if e_has_nan(self, r) or not nonneg(r):
                c.count("C03.skipped:nan-or-negative-energy")
                return True
            want, den = weighted(self, r, idx, fmin, fmax)
            ok = den > 0
            got = _vals(result)
            if got.shape != want.shape:
                c.check(f"C03.{name}", False, witness(self, name, fmin=fmin, fmax=fmax),
                        {"shape_got": got.shape, "shape_want": want.shape}, key=f"C03:{name}")
                return True
            c.close(f"C03.{name}", got[ok], want[ok], atol=1e-12, rtol=1e-10,
                    case=witness(self, name, fmin=fmin, fmax=fmax), key=f"C03:{name}")
            return True
        return post

    def post_mean_direction(self, fmin, fmax, result):
        c = box[0]
        r = raw(self)
        if e_has_nan(self, r) or not nonneg(r):
            return True
        A, den = weighted(self, r, 1, fmin, fmax)
        B, _ = weighted(self, r, 2, fmin, fmax)
        ok = (den > 0) & (np.hypot(A, B) > 1e-9)
        want = osp.direction_deg(B * 0 + A, B)[ok] if False else osp.direction_deg(A, B)[ok]
        got = _vals(result)
        w = witness(self, "mean_direction", fmin=fmin, fmax=fmax)
        if got.shape != A.shape:
            c.check("C03.mean_direction", False, w, {"shape": got.shape}, key="C03:mean_direction")
            return True
        g = got[ok]
        c.check("C03.mean_direction in [-180,180]", bool(np.all((g >= -180) & (g <= 180))), w,
                {"got": g}, key="C03:mean_direction:range")
        dev = np.abs(osp.circ_diff(g, want))
        # conditioning: angle error ~ eps/|(A,B)|
        bound = 1e-9 + 1e-12 / np.hypot(A, B)[ok]
        c.check("C03.mean_direction==atan2(B,A)", bool(np.all(dev <= bound)), w,
                {"got": g, "want": want}, key="C03:mean_direction")
        if dev.size:
            c.ratio("C03.mean_direction==atan2(B,A)", float(np.max(dev / bound)), 1.0)
        return True

    def post_mean_spread(self, fmin, fmax, result):
        c = box[0]
        r = raw(self)
        if e_has_nan(self, r) or not nonneg(r):
            return True
        A, den = weighted(self, r, 1, fmin, fmax)
        B, _ = weighted(self, r, 2, fmin, fmax)
        ok = den > 0
        got = _vals(result)
        w = witness(self, "mean_directional_spread", fmin=fmin, fmax=fmax)
        if got.shape != A.shape:
            c.check("C03.mean_spread", False, w, {"shape": got.shape}, key="C03:mean_spread")
            return True
        R = np.hypot(A, B)[ok]
        want = osp.spread_deg(A, B)[ok]
        g = got[ok]
        # d spread / dR = -1/(2 sqrt(2(1-R)) sqrt... ) ; use absolute tolerance scaled by conditioning
        with np.errstate(divide="ignore", invalid="ignore"):
            bound = 1e-9 + np.degrees(1e-13 / np.sqrt(np.maximum(2 * (1 - R), 1e-16)))
        fin = ~np.isnan(want)
        c.check("C03.mean_spread==sqrt(2(1-R))", bool(np.all(np.abs(g[fin] - want[fin]) <= bound[fin])), w,
                {"got": g, "want": want}, key="C03:mean_spread")
        lim = np.degrees(math.sqrt(2.0)) + 1e-9
        c.check("C03.mean_spread in [0,81.03]", bool(np.all((g[fin] >= 0) & (g[fin] <= lim))), w,
                {"got": g}, key="C03:mean_spread:range")
        return True

    def peak_idx(self, r, fmin, fmax):
        e = oracle_e(self, r)
        return osp.first_argmax_in_band(e, r["f"], fmin, fmax)

    def take(arr, idx):
        return np.take_along_axis(arr, np.maximum(idx, 0)[..., None], axis=-1)[..., 0]

    def post_peak_direction(self, fmin, fmax, result):
        c = box[0]
        r = raw(self)
        idx, mx = peak_idx(self, r, fmin, fmax)
        ok = (idx >= 0) & (mx > 0)
        om = oracle_moments(self, r)
        a1, b1 = take(om[1], idx), take(om[2], idx)
        got = _vals(result)
        w = witness(self, "peak_direction", fmin=fmin, fmax=fmax)
        if got.shape != idx.shape:
            c.check("C03.peak_direction", False, w, {"shape": got.shape}, key="C03:peak_direction")
            return True
        ok = ok & ~np.isnan(a1) & ~np.isnan(b1) & (np.hypot(a1, b1) > 1e-9)
        want = osp.direction_deg(a1, b1)[ok]
        dev = np.abs(osp.circ_diff(got[ok], want))
        c.check("C03.peak_direction==atan2(b1,a1)[peak]", bool(np.all(dev <= 1e-8)), w,
                {"got": got[ok], "want": want, "idx": idx}, key="C03:peak_direction")
        return True

    def post_peak_spread(self, fmin, fmax, result):
        c = box[0]
        r = raw(self)
        idx, mx = peak_idx(self, r, fmin, fmax)
        ok = (idx >= 0) & (mx > 0)
        om = oracle_moments(self, r)
        a1, b1 = take(om[1], idx), take(om[2], idx)
        got = _vals(result)
        w = witness(self, "peak_directional_spread", fmin=fmin, fmax=fmax)
        if got.shape != idx.shape:
            c.check("C03.peak_spread", False, w, {"shape": got.shape}, key="C03:peak_spread")
            return True
        R = np.hypot(a1, b1)
        ok = ok & ~np.isnan(R) & (R < 1 - 1e-9)
        want = osp.spread_deg(a1, b1)[ok]
        c.close("C03.peak_spread==spread(a1,b1)[peak]", got[ok], want, atol=1e-6, rtol=1e-9,
                case=w, key="C03:peak_spread")
        return True

    def post_dir_per_f(self, result):
        c = box[0]
        r = raw(self)
        om = oracle_moments(self, r)
        a1, b1 = om[1], om[2]
        got = _vals(result)
        w = witness(self, "mean_direction_per_frequency")
        if got.shape != a1.shape:
            c.check("C03.direction_per_frequency", False, w, {"shape": got.shape}, key="C03:dir_per_f")
            return
        ok = ~np.isnan(a1) & ~np.isnan(b1) & (np.hypot(a1, b1) > 1e-9)
        dev = np.abs(osp.circ_diff(got[ok], osp.direction_deg(a1, b1)[ok]))
        c.check("C03.direction_per_frequency", bool(np.all(dev <= 1e-8)), w, key="C03:dir_per_f")
        g = got[ok]
        c.check("C03.direction_per_frequency in [-180,180]", bool(np.all((g >= -180) & (g <= 180))), w,
                key="C03:dir_per_f:range")

    def post_spread_per_f(self, result):
        c = box[0]
        r = raw(self)
        om = oracle_moments(self, r)
        a1, b1 = om[1], om[2]
        got = _vals(result)
        w = witness(self, "mean_spread_per_frequency")
        if got.shape != a1.shape:
            c.check("C03.spread_per_frequency", False, w, {"shape": got.shape}, key="C03:spread_per_f")
            return
        R = np.hypot(a1, b1)
        ok = ~np.isnan(R) & (R < 1 - 1e-9)
        c.close("C03.spread_per_frequency", got[ok], osp.spread_deg(a1, b1)[ok], atol=1e-6, rtol=1e-9,
                case=w, key="C03:spread_per_f")
        lim = np.degrees(math.sqrt(2.0)) + 1e-9
        g = got[ok]
        c.check("C03.spread_per_frequency in [0,81.03]", bool(np.all((g >= 0) & (g <= lim))), w,
                key="C03:spread_per_f:range")

    if "C03" in groups:
        for name, idx in (("mean_a1", 1), ("mean_b1", 2), ("mean_a2", 3), ("mean_b2", 4)):
            setattr(WS, name, icontract.ensure(mk_post_mean(name, idx), error=PostBroken)(getattr(WS, name)))
        WS.mean_direction = icontract.ensure(post_mean_direction, error=PostBroken)(WS.mean_direction)
        WS.mean_directional_spread = icontract.ensure(post_mean_spread, error=PostBroken)(
            WS.mean_directional_spread)
        WS.peak_direction = icontract.ensure(post_peak_direction, error=PostBroken)(WS.peak_direction)
        WS.peak_directional_spread = icontract.ensure(post_peak_spread, error=PostBroken)(
            WS.peak_directional_spread)
        wrap_property(WS, "mean_direction_per_frequency", post_dir_per_f)
        wrap_property(WS, "mean_spread_per_frequency", post_spread_per_f)

    # ---------------- C04
    def post_peak_index(self, fmin, fmax, result):
        c = box[0]
        r = raw(self)
        idx, mx = peak_idx(self, r, fmin, fmax)
        got = np.asarray(getattr(result, "values", result))
        w = witness(self, "peak_index", fmin=fmin, fmax=fmax)
        if got.shape != idx.shape:
            c.check("C04.peak_index", False, w, {"shape": got.shape, "want": idx.shape}, key="C04:peak_index")
            return True
        ok = (idx >= 0) & (mx > 0)
        c.count("C04.peaks_judged", int(ok.sum()))
        c.count("C04.peaks_undefined(all-zero/empty band)", int((~ok).sum()))
        c.check("C04.peak_index==first-argmax-in-band", bool(np.array_equal(got[ok], idx[ok])), w,
                {"got": got, "want": idx}, key="C04:peak_index")
        return True

    def post_peak_frequency(self, fmin, fmax, use_spline, result):
        if use_spline:
            return True
        c = box[0]
        r = raw(self)
        idx, mx = peak_idx(self, r, fmin, fmax)
        got = _vals(result)
        w = witness(self, "peak_frequency", fmin=fmin, fmax=fmax)
        if got.shape != idx.shape:
            c.check("C04.peak_frequency", False, w, {"shape": got.shape}, key="C04:peak_frequency")
            return True
        ok = (idx >= 0) & (mx > 0)
        c.check("C04.peak_frequency==f[peak]", bool(np.array_equal(got[ok], r["f"][idx[ok]])), w,
                {"got": got, "want_idx": idx}, key="C04:peak_frequency")
        return True

    def post_peak_period(self, fmin, fmax, use_spline, result):
        if use_spline:
            return True
        c = box[0]
        r = raw(self)
        idx, mx = peak_idx(self, r, fmin, fmax)
        got = _vals(result)
        w = witness(self, "peak_period", fmin=fmin, fmax=fmax)
        if got.shape != idx.shape:
            c.check("C04.peak_period", False, w, {"shape": got.shape}, key="C04:peak_period")
            return True
        ok = (idx >= 0) & (mx > 0)
        with np.errstate(divide="ignore"):
            want = 1.0 / r["f"][idx[ok]]
        c.close("C04.peak_period==1/f[peak]", got[ok], want, rtol=1e-14, atol=0, case=w,
                key="C04:peak_period")
        return True

    def post_peak_wavenumber(self, result):
        c = box[0]
        r = raw(self)
        idx, mx = peak_idx(self, r, 0.0, np.inf)
        got = _vals(result)
        w = witness(self, "peak_wavenumber")
        if got.shape != idx.shape:
            c.check("C04.peak_wavenumber:shape", False, w, {"shape": got.shape, "want": idx.shape},
                    key="C04:peak_wavenumber")
            return
        depth = np.asarray(self.dataset["depth"].values, dtype=float)
        depth = np.where(np.isnan(depth), np.inf, depth)
        depth = np.broadcast_to(depth, idx.shape) if depth.shape != idx.shape else depth
        ok = (idx >= 0) & (mx > 0)
        fp = r["f"][np.maximum(idx, 0)]
        ok = ok & (fp > 0)
        om = 2 * np.pi * fp
        res = osp.dispersion_residual(got, om, depth)
        rel = np.abs(res[ok]) / om[ok]
        c.check("C04.peak_wavenumber:dispersion<=1e-3", bool(np.all(rel <= 1e-3) and np.all(got[ok] > 0)), w,
                {"k": got, "rel": rel}, key="C04:peak_wavenumber")
        if rel.size:
            c.ratio("C04.peak_wavenumber:dispersion<=1e-3", float(rel.max()), 1e-3)

    if "C04" in groups:
        WS.peak_index = icontract.ensure(post_peak_index, error=PostBroken)(WS.peak_index)
        WS.peak_frequency = icontract.ensure(post_peak_frequency, error=PostBroken)(WS.peak_frequency)
        WS.peak_period = icontract.ensure(post_peak_period, error=PostBroken)(WS.peak_period)
        wrap_property(WS, "peak_wavenumber", post_peak_wavenumber)


def call_case(case):
    """replay helper: rebuild the object of a class-level witness and call the method"""
    obj = case_to_obj(case)
    m = case["method"]
    attr = getattr(type(obj), m)
    if isinstance(attr, property):
        return getattr(obj, m)
    return getattr(obj, m)(**case.get("args", {}))
