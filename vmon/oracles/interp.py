"""Independent reference for 1-D piecewise-linear / nearest interpolation (explicit search)."""
from __future__ import annotations

import math

import numpy as np


def bracket(xp, x):
    """xp ascending (floats). returns (i0, i1, t) or None outside. explicit linear search."""
    n = len(xp)
    if x < xp[0] or x > xp[-1] or math.isnan(x):
        return None
    if x == xp[-1]:
        return n - 1, n - 1, 0.0
    i0 = 0
    for i in range(n):
        if xp[i] <= x:
            i0 = i
        else:
            break
    i1 = i0 + 1
    t = (x - xp[i0]) / (xp[i1] - xp[i0])
    return i0, i1, t


def ref_interp_axis0(xp, vals, x, nearest=False, exact=False):
    """xp: (n,) strictly monotonic floats; vals: (n, ...) with NaN; x: (m,) targets.
    NaN rule: a node is dropped when any element of its slab is NaN (node level) or when its
    weight is zero; result = sum(w v)/sum(w) if sum(w) > 0.5 else NaN.
    exact=True: grid and targets are dyadic rationals (all differences and the quotient are computed without
    rounding by any implementation), so "valid weight exceeds one half" is decidable: exactly 1/2 -> missing.
    returns (out (m, ...), tie (m,) bool: nearest-mode ties where either neighbour is acceptable,
             alt (m, ...) the alternative value for ties)"""
    xp = np.asarray(xp, float)
    vals = np.asarray(vals, float)
    if xp[-1] < xp[0]:
        xp = xp[::-1]
        vals = vals[::-1]
    m = len(x)
    out = np.full((m,) + vals.shape[1:], np.nan)
    alt = np.full((m,) + vals.shape[1:], np.nan)
    tie = np.zeros(m, dtype=bool)
    node_ok = ~np.isnan(vals.reshape(len(xp), -1)).any(axis=1) if vals.ndim > 1 else ~np.isnan(vals)
    for j in range(m):
        b = bracket(xp, float(x[j]))
        if b is None:
            continue
        i0, i1, t = b

        def combine(t):
            ws = 0.0
            acc = np.zeros(vals.shape[1:])
            for i, w in ((i0, 1.0 - t), (i1, t)):
                if w > 0 and node_ok[i]:
                    ws += w
                    acc = acc + w * vals[i]
            if ws > 0.5:
                return acc / ws
            return np.full(vals.shape[1:], np.nan)

        if nearest:
            if abs(t - 0.5) < 1e-12:
                tie[j] = True
                out[j] = combine(0.0)
                alt[j] = combine(1.0)
            else:
                out[j] = combine(float(round(t)))
        else:
            out[j] = combine(t)
            # exactly half of the weight valid (to rounding): "exceeds one half" is undecidable -> either
            if node_ok[i0] != node_ok[i1]:
                wvalid = (1.0 - t) if node_ok[i0] else t
                if abs(wvalid - 0.5) < 1e-9 and not (exact and wvalid == 0.5):
                    tie[j] = True
                    alt[j] = vals[i0] if node_ok[i0] else vals[i1]
                    if not np.all(np.isnan(out[j])):
                        alt[j] = np.nan
    return out, tie, alt
