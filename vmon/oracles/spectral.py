"""Independent reference computations for spectral quantities (plain numpy / loops).
Nothing here imports the repository."""
from __future__ import annotations

import math

import numpy as np

EPS = np.finfo(float).eps


def wrap180(x):
    """wrap to (-180, 180]"""
    y = (np.asarray(x, dtype=float) + 180.0) % 360.0 - 180.0
    return np.where(y == -180.0, 180.0, y)


def circ_diff(a, b):
    """signed circular difference a-b in degrees in [-180,180)"""
    return (np.asarray(a, dtype=float) - np.asarray(b, dtype=float) + 180.0) % 360.0 - 180.0


def is_uniform_dir(d, tol=1e-9):
    d = np.asarray(d, dtype=float)
    n = len(d)
    fw = circ_diff(np.roll(d, -1), d)
    return bool(np.all(np.abs(fw - 360.0 / n) < tol))


def dir_step_candidates(d):
    d = np.asarray(d, dtype=float)
    fw = circ_diff(np.roll(d, -1), d)
    bw = circ_diff(d, np.roll(d, 1))
    return {"forward": fw, "backward": bw, "centred": 0.5 * (fw + bw)}


def band_mask(f, fmin, fmax):
    f = np.asarray(f, dtype=float)
    return np.array([(fi >= fmin) and (fi < fmax) for fi in f], dtype=bool)


def trapz_loop(y, x):
    """explicit trapezoid; returns (value, sum of |terms|)"""
    tot = 0.0
    mag = 0.0
    for i in range(len(x) - 1):
        t = 0.5 * (y[i] + y[i + 1]) * (x[i + 1] - x[i])
        tot += t
        mag += 0.5 * (abs(y[i]) + abs(y[i + 1])) * abs(x[i + 1] - x[i])
    return tot, mag


def moment(e, f, power, fmin=0.0, fmax=np.inf):
    """e: (..., nf) array (NaN allowed); returns (m, mag) with shape e.shape[:-1]"""
    e = np.asarray(e, dtype=float)
    f = np.asarray(f, dtype=float)
    mask = band_mask(f, fmin, fmax)
    fi = f[mask]
    lead = e.shape[:-1]
    e2 = e.reshape(-1, e.shape[-1])
    out = np.zeros(e2.shape[0])
    mag = np.zeros(e2.shape[0])
    for p in range(e2.shape[0]):
        y = e2[p][mask] * fi ** power
        y = np.where(np.isnan(y), 0.0, y)
        out[p], mag[p] = trapz_loop(y, fi)
    return out.reshape(lead), mag.reshape(lead)


def e_of_2d(E, step):
    """sum over direction, NaN skipped"""
    E = np.asarray(E, dtype=float)
    t = E * step
    return np.where(np.isnan(t), 0.0, t).sum(axis=-1)


def dir_moments(E, d, step):
    E = np.asarray(E, dtype=float)
    th = np.deg2rad(np.asarray(d, dtype=float))
    e = e_of_2d(E, step)

    def w(fn):
        t = E * fn * step
        return np.where(np.isnan(t), 0.0, t).sum(axis=-1)

    with np.errstate(divide="ignore", invalid="ignore"):
        return (e, w(np.cos(th)) / e, w(np.sin(th)) / e, w(np.cos(2 * th)) / e, w(np.sin(2 * th)) / e)


def direction_deg(a1, b1):
    return np.degrees(np.arctan2(b1, a1))


def spread_deg(a1, b1):
    """sqrt(2(1-R)) in degrees; R exceeding 1 by rounding only (unidirectional energy) counts as 1"""
    R = np.sqrt(np.asarray(a1, dtype=float) ** 2 + np.asarray(b1, dtype=float) ** 2)
    R = np.where((R > 1.0) & (R < 1.0 + 1e-12), 1.0, R)
    with np.errstate(invalid="ignore"):
        return np.degrees(np.sqrt(2.0 * (1.0 - R)))


def first_argmax_in_band(e, f, fmin=0.0, fmax=np.inf):
    """per row: (index, maxvalue) of first maximum among in-band non-NaN points;
    index -1 if none"""
    e = np.asarray(e, dtype=float)
    mask = band_mask(f, fmin, fmax)
    lead = e.shape[:-1]
    e2 = e.reshape(-1, e.shape[-1])
    idx = np.full(e2.shape[0], -1, dtype=int)
    mx = np.full(e2.shape[0], np.nan)
    for p in range(e2.shape[0]):
        best = None
        for i in range(e2.shape[1]):
            if not mask[i] or math.isnan(e2[p, i]):
                continue
            if best is None or e2[p, i] > best:
                best = e2[p, i]
                idx[p] = i
        if best is not None:
            mx[p] = best
    return idx.reshape(lead), mx.reshape(lead)


def dispersion_residual(k, omega, depth, g=9.81):
    k = np.asarray(k, dtype=float)
    depth = np.asarray(depth, dtype=float)
    with np.errstate(over="ignore", invalid="ignore"):
        kd = k * depth
        th = np.where(np.isinf(depth), 1.0, np.tanh(kd))
    return np.sqrt(g * k * th) - omega
