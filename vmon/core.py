"""
Core of the runtime-monitoring framework.

A *property module* (vmon/props/cXX.py) exposes

    PROPERTY  = "C01"
    LEVEL     = "exploration" | "fault_enumeration"
    RULE      = "<how cases are generated / what makes one non-trivial>"
    REQUIRED_MONITORS = [names that must have >0 evaluations, else inconclusive]
    REQUIRED_REACH    = [qualnames of repo functions that must have executed]
    def plan(tier, seed) -> list of shard descriptors (json-able dicts)
    def run_shard(ctx, shard)            # executes workload, calls ctx.check(...)
    def replay(ctx, case)                # re-executes one recorded case

The driver (vmon/run.py) runs every shard in its own subprocess (crash isolation,
watchdog), merges the shard reports and writes evidence / verdict.
"""
from __future__ import annotations

import hashlib
import json
import math
import os
import sys
import time
import traceback

import numpy as np

VERIF = os.path.dirname(os.path.dirname(os.path.abspath(__file__)))
REPO = os.environ.get("VERIF_REPO", "/repo")
REPO_SRC = os.path.join(REPO, "src")


# ----------------------------------------------------------------------------
# json encoding of cases (numpy aware) so that replay files are self contained
# ----------------------------------------------------------------------------
def enc(obj):
    if isinstance(obj, np.ndarray):
        if obj.dtype.kind == "M":
            return {"__nd__": obj.astype("datetime64[ns]").astype("int64").tolist(),
                    "dtype": "datetime64[ns]"}
        if obj.dtype.kind in "fc":
            return {"__nd__": _floats(obj), "dtype": str(obj.dtype), "shape": list(obj.shape)}
        return {"__nd__": obj.tolist(), "dtype": str(obj.dtype), "shape": list(obj.shape)}
    if isinstance(obj, (np.floating,)):
        return _f(float(obj))
    if isinstance(obj, (np.integer,)):
        return int(obj)
    if isinstance(obj, (np.bool_,)):
        return bool(obj)
    if isinstance(obj, float):
        return _f(obj)
    if isinstance(obj, dict):
        return {str(k): enc(v) for k, v in obj.items()}
    if isinstance(obj, (list, tuple)):
        return [enc(v) for v in obj]
    if isinstance(obj, bytes):
        return {"__bytes__": obj.hex()}
    if obj is None or isinstance(obj, (str, int, bool)):
        return obj
    return repr(obj)


def _f(x):
    if math.isnan(x):
        return {"__f__": "nan"}
    if math.isinf(x):
        return {"__f__": "inf" if x > 0 else "-inf"}
    return x


def _floats(a):
    flat = a.ravel()
    if flat.dtype.kind == "c":
        return [[_f(float(z.real)), _f(float(z.imag))] for z in flat]
    return [_f(float(z)) for z in flat]


def dec(obj):
    if isinstance(obj, dict):
        if "__f__" in obj:
            return float(obj["__f__"])
        if "__bytes__" in obj:
            return bytes.fromhex(obj["__bytes__"])
        if "__nd__" in obj:
            dt = obj["dtype"]
            if dt.startswith("datetime64"):
                return np.array(obj["__nd__"], dtype="int64").astype("datetime64[ns]")
            data = obj["__nd__"]
            if np.dtype(dt).kind == "f":
                arr = np.array([dec(v) for v in data], dtype=dt)
                return arr.reshape(obj["shape"])
            if np.dtype(dt).kind == "c":
                arr = np.array([complex(dec(v[0]), dec(v[1])) for v in data], dtype=dt)
                return arr.reshape(obj["shape"])
            return np.array(data, dtype=dt).reshape(obj["shape"])
        return {k: dec(v) for k, v in obj.items()}
    if isinstance(obj, list):
        return [dec(v) for v in obj]
    return obj


def tree_hash():
    h = hashlib.sha256()
    for root, dirs, files in sorted(os.walk(REPO_SRC)):
        dirs.sort()
        for f in sorted(files):
            if f.endswith(".py"):
                p = os.path.join(root, f)
                h.update(p.encode())
                with open(p, "rb") as fh:
                    h.update(fh.read())
    return h.hexdigest()[:16]


# ----------------------------------------------------------------------------
# reach recorder (which repo functions actually executed)
# ----------------------------------------------------------------------------
class Reach:
    """Records qualnames of functions of the repository that started executing,
    using sys.monitoring PY_START with DISABLE after first hit (one event per code
    object).  numba-compiled kernels do not execute Python code; for them reach is
    counted at the call boundary by the property modules (ctx.count)."""

    def __init__(self):
        self.seen = set()
        self.active = False

    def start(self):
        mon = sys.monitoring
        self.tool = mon.PROFILER_ID
        try:
            mon.use_tool_id(self.tool, "vmon-reach")
        except ValueError:
            return
        prefix = os.path.join(REPO_SRC, "")

        def on_start(code, offset):
            fn = code.co_filename
            if fn.startswith(prefix):
                self.seen.add(fn[len(prefix):] + ":" + code.co_qualname)
            return mon.DISABLE

        mon.register_callback(self.tool, mon.events.PY_START, on_start)
        mon.set_events(self.tool, mon.events.PY_START)
        self.active = True

    def stop(self):
        if self.active:
            sys.monitoring.set_events(self.tool, 0)
            sys.monitoring.free_tool_id(self.tool)
            self.active = False


# ----------------------------------------------------------------------------
# context handed to property modules
# ----------------------------------------------------------------------------
class Ctx:
    MAX_VIOLATIONS_KEPT = 40

    def __init__(self, prop, tier, seed, shard_index=0):
        self.prop = prop
        self.tier = tier
        self.seed = seed
        self.shard_index = shard_index
        self.evaluations = 0
        self.descriptors = {}  # descriptor -> nontrivial bool
        self.monitors = {}  # name -> dict(evals, fails, worst, worst_case)
        self.counters = {}
        self.samples = []
        self.violations = []  # dict(monitor,key,detail,case)
        self.violation_keys = {}
        self.notes = []
        self.observed = {}  # kind -> set of distinct values seen by the monitors (interleavings, states, ...)
        self.reach = Reach()
        self.t0 = time.time()

    # -- randomness ----------------------------------------------------------
    def rng(self, *extra):
        pnum = int(self.prop[1:])
        return np.random.default_rng(
            np.random.SeedSequence([self.seed, pnum, self.shard_index, *extra])
        )

    # -- counting --------------------------------------------------------------
    def case(self, descriptor, nontrivial=True, sample=None):
        """Register one generated case.  descriptor: hashable describing the *class*
        of the case (layout, sizes, kinds) - not random values."""
        self.evaluations += 1
        d = descriptor if isinstance(descriptor, str) else json.dumps(enc(descriptor), sort_keys=True)
        self.descriptors[d] = self.descriptors.get(d, False) or bool(nontrivial)
        if sample is not None and len(self.samples) < 4:
            self.samples.append(enc(sample))

    def count(self, name, n=1):
        self.counters[name] = self.counters.get(name, 0) + n

    def observe(self, kind, value):
        """record a distinct observed state / interleaving (reported as a count of distinct values)"""
        self.observed.setdefault(kind, set()).add(value if isinstance(value, str) else json.dumps(enc(value), sort_keys=True))

    def note(self, text):
        if len(self.notes) < 50 and text not in self.notes:
            self.notes.append(text)

    # -- monitors ---------------------------------------------------------------
    def _mon(self, name):
        m = self.monitors.get(name)
        if m is None:
            m = self.monitors[name] = {"evals": 0, "fails": 0, "worst": 0.0}
        return m

    def check(self, monitor, ok, case=None, detail=None, key=None):
        """Record one evaluation of a monitor.  On failure a violation is recorded;
        `key` is a mechanism classifier used to match known findings."""
        m = self._mon(monitor)
        m["evals"] += 1
        if ok:
            return True
        m["fails"] += 1
        k = key or monitor
        self.violation_keys[k] = self.violation_keys.get(k, 0) + 1
        if self.violation_keys[k] <= 3 and len(self.violations) < self.MAX_VIOLATIONS_KEPT:
            c = case() if callable(case) else case
            self.violations.append(
                {"monitor": monitor, "key": k, "detail": enc(detail), "case": enc(c)}
            )
        return False

    def close(self, monitor, got, want, atol=0.0, rtol=0.0, case=None, key=None,
              equal_nan=True, what=None):
        """Numeric comparison monitor |got-want| <= atol + rtol*|want|, NaN/inf positions
        must agree.  Tracks the worst deviation/bound ratio for the evidence file."""
        got = np.asarray(got, dtype=float)
        want = np.asarray(want, dtype=float)
        m = self._mon(monitor)
        if got.shape != want.shape:
            return self.check(monitor, False, case,
                              {"what": what, "shape_got": list(got.shape),
                               "shape_want": list(want.shape)}, key)
        # shapes agree only if original shapes identical (no silent broadcasting)
        gn, wn = np.isnan(got), np.isnan(want)
        ok = True
        if equal_nan:
            if not np.array_equal(gn, wn):
                ok = False
        elif gn.any() or wn.any():
            ok = False
        fin = ~(gn | wn)
        ratio = 0.0
        if ok and fin.any():
            g, w = got[fin], want[fin]
            inf_g, inf_w = np.isinf(g), np.isinf(w)
            if not np.array_equal(inf_g, inf_w) or not np.array_equal(g[inf_g], w[inf_w]):
                ok = False
            else:
                g, w = g[~inf_g], w[~inf_w]
                if g.size:
                    bound = atol + rtol * np.abs(w)
                    dev = np.abs(g - w)
                    with np.errstate(divide="ignore", invalid="ignore"):
                        r = np.where(dev == 0, 0.0, dev / np.where(bound > 0, bound, np.nan))
                    r = np.where(np.isnan(r), np.inf, r)
                    ratio = float(r.max())
                    if ratio > 1.0:
                        ok = False
        if ratio > m["worst"] and math.isfinite(ratio):
            m["worst"] = ratio
        if ok:
            m["evals"] += 1
            return True
        return self.check(monitor, False, case,
                          {"what": what, "got": got, "want": want, "atol": atol,
                           "rtol": rtol, "ratio": ratio}, key)

    def ratio(self, monitor, value, bound):
        """track value/bound for a monitor (evidence: headroom)."""
        m = self._mon(monitor)
        if bound > 0 and math.isfinite(value):
            m["worst"] = max(m["worst"], float(value) / float(bound))

    # -- report -----------------------------------------------------------------
    def report(self):
        return {
            "shard": self.shard_index,
            "evaluations": self.evaluations,
            "descriptors": self.descriptors,
            "monitors": self.monitors,
            "counters": self.counters,
            "samples": self.samples,
            "violations": self.violations,
            "violation_keys": self.violation_keys,
            "notes": self.notes,
            "observed_sets": {k: sorted(v)[:2000] for k, v in self.observed.items()},
            "reach": sorted(self.reach.seen),
            "wall_s": time.time() - self.t0,
        }


def run_repo_tests_under_contracts(ctx, tests=("tests/spectrum/test_spectrum.py",)):
    """extra workload: the repository's own tests with the class-level contracts installed (pytest plugin);
    the contract evaluations and failures observed there are merged into this shard's context"""
    import subprocess
    import tempfile
    out = tempfile.mktemp(suffix=".json", dir=os.environ.get("VERIF_WORK", os.path.join(VERIF, ".work")))
    env = dict(os.environ)
    env["VMON_PLUGIN_OUT"] = out
    env["VMON_PLUGIN_PROP"] = ctx.prop
    cmd = [sys.executable, "-m", "pytest", "-q", "-p", "no:cacheprovider", "-p", "vmon.pytest_plugin", "--timeout=900",
           *[os.path.join(REPO, t) for t in tests]]
    subprocess.run(cmd, cwd=REPO, env=env, capture_output=True, text=True, timeout=1800)
    if not os.path.exists(out):
        ctx.note("repository tests under contracts: no report produced")
        return
    with open(out) as fh:
        rep = json.load(fh)
    os.remove(out)
    for name, m in rep["monitors"].items():
        t = ctx._mon(name)
        t["evals"] += m["evals"]
        t["fails"] += m["fails"]
        t["worst"] = max(t["worst"], m["worst"])
    for k, v in rep["violation_keys"].items():
        ctx.violation_keys[k] = ctx.violation_keys.get(k, 0) + v
    ctx.violations.extend(rep["violations"][:10])
    for k, v in rep["counters"].items():
        ctx.count("repo-tests:" + k, v)
    ctx.reach.seen.update(rep.get("reach", []))
    ctx.case(("repo-tests-under-contracts",), nontrivial=True)


def guarded(ctx, monitor, fn, case=None, key=None):
    """Run fn(); an exception is a violation of monitor `monitor` ("returns without
    raising").  Returns (ok, value)."""
    try:
        v = fn()
    except Exception as e:  # noqa
        tb = traceback.format_exc(limit=6)
        ctx.check(monitor, False, case, {"exception": repr(e), "traceback": tb},
                  key or (monitor + ":" + type(e).__name__))
        return False, None
    ctx.check(monitor, True)
    return True, v
