"""Harness + executable reference model for the file cache (C18, C19).

 * InstrumentedResource - a RemoteResource serving deterministic bytes from memory, logging every
   contact, optionally sleeping (schedule perturbation) or failing (fault plan).
 * Lab - owns one cache directory, executes operations on the real FileCache, keeps the reference
   model in step and judges every observation.
 * an audit hook records file-system events of the process on the cache directory.
"""
from __future__ import annotations

import hashlib
import os
import shutil
import sys
import threading
import time
import warnings

KB = 1000
SIZES = {"A": 5 * KB, "B": 4 * KB, "C": 3 * KB, "D": 2500, "E": 3500, "F": 1500,
         "G": 1200, "H": 1300, "I": 1400, "J": 1100, "K": 1600, "L": 1700}
PREFIX, POSTFIX = "cachefile_", "_cachefile"
CONFIG = "file_cache_config.json"


def base_of(key):
    return key.split("<<")[0]


def content(key, salt=""):
    b = base_of(key)
    n = SIZES[b[-1]]
    seed = hashlib.sha256((b + salt).encode()).digest()
    return (seed * (n // len(seed) + 1))[:n]


def uri(key):
    b, _, c = key.partition("<<")
    return f"mem://bucket/{b}" + (f"<<{c}" if c else "")


def expected_name(key):
    return PREFIX + hashlib.md5(uri(key).encode()).hexdigest() + POSTFIX


def is_cache_name(name):
    return name.startswith(PREFIX) and name.endswith(POSTFIX)


def is_cache_owned(name):
    """names the cache may create/modify: cache files, its config file, and temporary files derived
    from a cache-file name (e.g. '<cachefile>.part')"""
    return is_cache_name(name) or name == CONFIG or (name.startswith(PREFIX) and POSTFIX in name)


# ----------------------------------------------------------------------------- audit hook
class Audit:
    def __init__(self):
        self.events = []
        self.root = None
        self.quiet = threading.local()
        self.installed = False
        self.lock = threading.Lock()

    def install(self):
        if not self.installed:
            sys.addaudithook(self._hook)
            self.installed = True

    def harness(self):
        a = self

        class _Q:
            def __enter__(self_):
                a.quiet.n = getattr(a.quiet, "n", 0) + 1

            def __exit__(self_, *exc):
                a.quiet.n -= 1
        return _Q()

    def _hook(self, event, args):
        root = self.root
        if root is None or getattr(self.quiet, "n", 0):
            return
        try:
            if event == "open":
                path, mode, flags = args[0], args[1], args[2]
                if not isinstance(path, (str, bytes)):
                    return
                w = (isinstance(flags, int) and flags & (os.O_WRONLY | os.O_RDWR | os.O_CREAT | os.O_TRUNC | os.O_APPEND)) \
                    or (isinstance(mode, str) and any(c in mode for c in "wax+"))
                if not w:
                    return
                paths, kind = [path], "open-write"
            elif event in ("os.remove", "os.truncate", "os.utime", "os.chmod", "os.rmdir"):
                paths, kind = [args[0]], event
            elif event == "os.rename":
                paths, kind = [args[0], args[1]], event
            elif event == "shutil.copyfile":
                paths, kind = [args[1]], event
            else:
                return
            for p in paths:
                if isinstance(p, bytes):
                    p = p.decode()
                if not isinstance(p, str):
                    continue
                ap = os.path.abspath(p)
                if ap.startswith(root + os.sep):
                    with self.lock:
                        self.events.append((kind, os.path.relpath(ap, root)))
        except Exception:
            pass


AUDIT = Audit()


# ----------------------------------------------------------------------------- resource
class NotFoundInjected(Exception):
    pass


class Boom(OSError):
    pass


SIZES["Z"] = 0  # a resource of exactly zero bytes (an empty listing, a placeholder file)


def make_resource(log, plan=None, delays=None, salt="", version=None):
    """plan: dict base-key -> fault kind for the *next* fetch of that key (popped when used)
       kinds: 'notfound', 'raise-before', 'raise-half', 'ok'."""
    from ocean_science_utilities.filecache.remote_resources import RemoteResource, _RemoteResourceUriNotFound
    plan = plan if plan is not None else {}

    class InstrumentedResource(RemoteResource):
        URI_PREFIX = "mem://"

        def download(self):
            def _dl(u, filepath):
                key = u.rsplit("/", 1)[1]
                t = threading.get_ident()
                log.append(("start", key, t))
                if delays is not None:
                    time.sleep(delays(key))
                kind = plan.get(key, "ok")
                if kind != "notfound":
                    # transient faults hit the next fetch only; a missing remote object stays missing for every
                    # fetch until the harness clears the plan (the same URI may occur twice in one request)
                    plan.pop(key, None)
                if kind == "notfound":
                    log.append(("notfound", key, t))
                    raise _RemoteResourceUriNotFound(u)
                if kind == "raise-before":
                    log.append(("raise-before", key, t))
                    raise Boom("before any byte")
                # `version` is a one-element list: the resource's content can change between fetches (a re-fetch
                # after a validation rejection must deliver the *new* bytes, a stale file must not be served)
                data = content(key, salt + (version[0] if version else ""))
                with open(filepath, "wb") as fh:
                    if kind == "raise-half":
                        fh.write(data[: len(data) // 2])
                        fh.flush()
                        os.fsync(fh.fileno())
                        log.append(("raise-half", key, t))
                        raise Boom("after half of the bytes")
                    fh.write(data)
                log.append(("done", key, t, version[0] if version else ""))
                return True
            return _dl

    return InstrumentedResource()


# ----------------------------------------------------------------------------- helpers
def read_noatime(path):
    flags = os.O_RDONLY
    try:
        fd = os.open(path, flags | os.O_NOATIME)
    except PermissionError:
        fd = os.open(path, flags)
    try:
        out = b""
        while True:
            chunk = os.read(fd, 1 << 16)
            if not chunk:
                return out
            out += chunk
    finally:
        os.close(fd)


def listing(root):
    with AUDIT.harness():
        names = sorted(os.listdir(root))
    return names


def age_cache_files(root, seconds=10):
    """'time passes': shift atime/mtime of every cache-owned file back, preserving their order"""
    with AUDIT.harness():
        for n in os.listdir(root):
            if is_cache_name(n):
                p = os.path.join(root, n)
                st = os.stat(p)
                os.utime(p, ns=(st.st_atime_ns - seconds * 10 ** 9, st.st_mtime_ns - seconds * 10 ** 9))


def quiesce(timeout=5.0):
    """join straggling download threads (a ThreadPool that was torn down by an exception does not wait
    for its workers); the directory is examined only after they are gone"""
    me = threading.current_thread()
    deadline = time.time() + timeout
    for t in threading.enumerate():
        if t is me or t is threading.main_thread() or "(worker)" not in t.name:
            continue  # only ThreadPool workers ("Thread-N (worker)"); tqdm's monitor thread never ends
        t.join(max(0.0, deadline - time.time()))


class Lab:
    """One cache directory + the reference model."""

    def __init__(self, ctx, root, limit_bytes, parallel, prop, wit, plan=None, delays=None, allow_missing=True):
        self.ctx, self.root, self.parallel, self.prop, self.wit = ctx, root, parallel, prop, wit
        self.limit_bytes = limit_bytes
        self.allow_missing = allow_missing
        self.log = []
        self.plan = plan if plan is not None else {}
        self.delays = delays
        self.model = {}  # key(name) -> dict(key, last_use, size)
        self.tick = 0
        self.foreign = {}  # name -> (bytes, mtime_ns)
        self.cache = None
        self.version = [""]  # current content version of the remote resource
        self.unique = True  # every eviction so far had a unique answer under the model
        self.evictions = 0
        with AUDIT.harness():
            shutil.rmtree(root, ignore_errors=True)
            os.makedirs(root)
        AUDIT.root = os.path.abspath(root)
        AUDIT.install()

    # -- helpers
    def fail(self, monitor, detail, key):
        self.ctx.check(monitor, False, self.wit, detail, key=key)

    def ok(self, monitor):
        self.ctx.check(monitor, True)

    def open(self):
        from ocean_science_utilities.filecache.cache_object import FileCache
        res = make_resource(self.log, self.plan, self.delays, version=self.version)
        with warnings.catch_warnings():
            warnings.simplefilter("ignore")
            self.cache = FileCache(self.root, self.limit_bytes / 1e9, resources=[res], parallel=self.parallel,
                                   allow_for_missing_files=self.allow_missing)
        self.cache.disable_progress_bar = True
        try:
            # a validation function that accepts everything, for requests made through the "validate=ok:" directive
            self.cache.set_directive_function("validate", "ok", lambda path: True)
        except Exception:
            pass
        return self.cache

    def disk_cache_files(self):
        return [n for n in listing(self.root) if is_cache_name(n)]

    def limit(self):
        return int(self.cache.config.max_size_bytes)

    def check_invariants(self, where):
        p = self.prop
        files = self.disk_cache_files()
        n = len(self.cache)
        self.ctx.check(f"{p}.len(cache)==cache-files-on-disk", n == len(files), self.wit,
                       {"where": where, "len": n, "files": len(files)}, key=f"{p}:len-vs-files")
        # foreign files untouched
        names = listing(self.root)
        for fn, (data, mt) in self.foreign.items():
            pth = os.path.join(self.root, fn)
            okf = fn in names and read_noatime(pth) == data and os.stat(pth).st_mtime_ns == mt
            self.ctx.check(f"{p}.foreign-files-untouched", okf, self.wit, {"where": where, "file": fn},
                           key=f"{p}:foreign")
        # audit events on non cache-owned names
        bad = [(k, n_) for (k, n_) in AUDIT.events if not is_cache_owned(os.path.basename(n_)) or os.sep in n_]
        self.ctx.check(f"{p}.audit:only-cache-owned-paths-written", not bad, self.wit,
                       {"where": where, "events": bad[:5]}, key=f"{p}:audit")
        self.ctx.count(f"{p}.audit_events", len(AUDIT.events))
        AUDIT.events.clear()
        # every model entry's file holds the right bytes
        for name, m in self.model.items():
            pth = os.path.join(self.root, name)
            if name in files:
                okb = read_noatime(pth) == content(m["key"])
                self.ctx.check(f"{p}.cached-bytes-intact", okb, self.wit, {"where": where, "key": m["key"]},
                               key=f"{p}:bytes")

    # -- operations
    def op_get(self, keys, expect_fail=(), directive=""):
        p = self.prop
        age_cache_files(self.root)
        self.tick += 1
        before_names = set(self.disk_cache_files())
        limit_before = self.limit()
        self.log.clear()
        uris = [directive + uri(k) for k in keys]
        with warnings.catch_warnings():
            warnings.simplefilter("ignore")
            paths = self.cache[uris if len(uris) > 1 else uris[0]]
        limit_after = self.limit()
        names_after = set(self.disk_cache_files())
        # ---- returned paths
        good = isinstance(paths, list) and len(paths) == len(keys)
        self.ctx.check(f"{p}.returns-one-path-per-uri", good, self.wit, {"keys": keys, "paths": paths},
                       key=f"{p}:paths:count")
        if not good:
            return paths
        for k, pth in zip(keys, paths):
            exists = os.path.exists(pth)
            okb = exists and read_noatime(pth) == content(k)
            self.ctx.check(f"{p}.returned-path-holds-resource-bytes", okb, self.wit,
                           {"key": k, "exists": exists, "path": os.path.basename(pth)}, key=f"{p}:paths:bytes")
            self.ctx.check(f"{p}.path-is-cache-file-of-uri", os.path.basename(pth) == expected_name(k)
                           and os.path.dirname(os.path.abspath(pth)) == os.path.abspath(self.root), self.wit,
                           {"key": k, "path": pth}, key=f"{p}:paths:name")
        self.ctx.check(f"{p}.distinct-uris-distinct-files", len(set(paths)) == len(set(keys)), self.wit,
                       {"keys": keys}, key=f"{p}:paths:distinct")
        # ---- hits did not contact the resource; misses contacted exactly once
        started = [e[1] for e in self.log if e[0] == "start"]
        hits = [k for k in keys if expected_name(k) in self.model]
        misses = [k for k in keys if expected_name(k) not in self.model]
        self.ctx.count(f"{p}.hits", len(hits))
        self.ctx.count(f"{p}.misses", len(misses))
        want = sorted(base_of(k) for k in misses)
        self.ctx.check(f"{p}.hits-served-without-contact", sorted(started) == want, self.wit,
                       {"keys": keys, "contacted": started, "expected_misses": want}, key=f"{p}:contact")
        if self.parallel and len(misses) > 1:
            order = tuple(e[1] for e in self.log if e[0] == "done")
            self.ctx.count(f"{p}.parallel_requests")
            self.ctx.observe("parallel download completion order (vs request order)",
                             ",".join(order) + " | request " + ",".join(base_of(k) for k in misses))
        # ---- size bound, enlargement
        req_size = sum(SIZES[base_of(k)[-1]] for k in set(keys))
        if req_size > limit_before:
            self.ctx.count(f"{p}.enlargements")
            self.ctx.check(f"{p}.limit-enlarged-only-when-request-exceeds", limit_after >= req_size, self.wit,
                           {"limit_before": limit_before, "limit_after": limit_after, "request": req_size},
                           key=f"{p}:limit")
        else:
            self.ctx.check(f"{p}.limit-enlarged-only-when-request-exceeds", limit_after == limit_before, self.wit,
                           {"limit_before": limit_before, "limit_after": limit_after, "request": req_size},
                           key=f"{p}:limit")
        sizes = {n: os.path.getsize(os.path.join(self.root, n)) for n in names_after}
        total = sum(sizes.values())
        self.ctx.check(f"{p}.total-size<=limit", total <= limit_after, self.wit,
                       {"total": total, "limit": limit_after}, key=f"{p}:size")
        # ---- eviction relation
        req_names = {expected_name(k) for k in keys}
        for k in keys:
            n = expected_name(k)
            self.model[n] = {"key": k, "last_use": self.tick, "size": SIZES[base_of(k)[-1]]}
        E = set(self.model) - names_after
        K = set(self.model) & names_after
        self.ctx.check(f"{p}.never-evicts-current-request", not (E & req_names), self.wit,
                       {"evicted": [self.model[e]["key"] for e in E & req_names]}, key=f"{p}:evict:current")
        extra = names_after - set(self.model)
        self.ctx.check(f"{p}.no-unknown-cache-files", not extra, self.wit, {"extra": sorted(extra)}, key=f"{p}:unknown-files")
        if E:
            self.evictions += len(E)
            self.ctx.count(f"{p}.evictions", len(E))
            lu = {n: self.model[n]["last_use"] for n in self.model}
            downset = all(lu[e] <= lu[k] for e in E for k in K)
            self.ctx.check(f"{p}.evicts-least-recently-used-first", downset, self.wit,
                           {"evicted": sorted((self.model[e]["key"], lu[e]) for e in E),
                            "kept": sorted((self.model[k]["key"], lu[k]) for k in K)}, key=f"{p}:evict:lru")
            top = max(lu[e] for e in E)
            newest = [e for e in E if lu[e] == top]
            minimal = any(total + self.model[e]["size"] > limit_after for e in newest)
            self.ctx.check(f"{p}.evicts-no-more-than-needed", minimal, self.wit,
                           {"total_after": total, "limit": limit_after,
                            "evicted": sorted(self.model[e]["key"] for e in E)}, key=f"{p}:evict:minimal")
            # is the answer unique under the model? (no tie between last evicted class and first kept class)
            kept_ticks = {lu[k] for k in K}
            if top in kept_ticks:
                self.unique = False
            self.ctx.observe("eviction (evicted | kept)", ",".join(sorted(self.model[e]["key"] for e in E)) + " | " +
                             ",".join(sorted(self.model[k]["key"] for k in K)))
        for e in E:
            del self.model[e]
        self.check_invariants("get " + ",".join(keys))
        return [os.path.basename(x) for x in paths]

    def op_remove(self, key):
        p = self.prop
        age_cache_files(self.root)
        name = expected_name(key)
        with warnings.catch_warnings():
            warnings.simplefilter("ignore")
            self.cache.remove(uri(key))
        gone = name not in self.disk_cache_files()
        self.ctx.check(f"{p}.remove-deletes-entry-and-file", gone, self.wit, {"key": key}, key=f"{p}:remove")
        self.model.pop(name, None)
        others = set(self.model) <= set(self.disk_cache_files())
        self.ctx.check(f"{p}.remove-keeps-others", others, self.wit, {"key": key}, key=f"{p}:remove:others")
        self.check_invariants("remove " + key)

    def op_purge(self):
        p = self.prop
        self.cache.purge()
        self.ctx.check(f"{p}.purge-empties-cache", not self.disk_cache_files() and len(self.cache) == 0, self.wit,
                       key=f"{p}:purge")
        self.model.clear()
        self.check_invariants("purge")

    def op_reopen(self):
        self.open()
        self.check_invariants("reopen")

    def op_touch(self, key):
        name = expected_name(key)
        pth = os.path.join(self.root, name)
        age_cache_files(self.root)
        self.tick += 1
        if os.path.exists(pth):
            with AUDIT.harness():
                os.utime(pth, None)
            if name in self.model:
                self.model[name]["last_use"] = self.tick

    def op_access(self, key):
        """the user reads the cached file: only the access time moves (mtime stays) - still a use"""
        name = expected_name(key)
        pth = os.path.join(self.root, name)
        age_cache_files(self.root)
        self.tick += 1
        if os.path.exists(pth):
            with AUDIT.harness():
                st = os.stat(pth)
                os.utime(pth, ns=(time.time_ns(), st.st_mtime_ns))
            if name in self.model:
                self.model[name]["last_use"] = self.tick

    def op_foreign(self):
        hx = hashlib.md5(b"someone else's file").hexdigest()
        # (the last two look like a cache file up to a suffix/prefix added by a user or a backup tool)
        names = [f"cachefile_{hx}_cachefile.bak", "notes.txt", f"copy_of_cachefile_{hx}_cachefile", "cachefile_only_prefix",
                 "only_postfix_cachefile", "data.bin"]
        fn = names[len(self.foreign) % len(names)]
        pth = os.path.join(self.root, fn)
        data = hashlib.sha256(fn.encode()).digest() * 20
        with AUDIT.harness():
            with open(pth, "wb") as fh:
                fh.write(data)
            os.utime(pth, ns=(10 ** 18, 10 ** 18))
        self.foreign[fn] = (data, os.stat(pth).st_mtime_ns)

    def close(self):
        AUDIT.root = None
        with AUDIT.harness():
            shutil.rmtree(self.root, ignore_errors=True)
