"""Seeded generators for wave spectra.  A *case* is a json-able dict of plain arrays; `build`
turns it into the repository's spectrum object through the repository's own constructors."""
from __future__ import annotations

import warnings

import numpy as np

LAYOUTS = ("scalar", "time", "time_lat", "flat")


# ---------------------------------------------------------------------------- grids
def freq_grid(rng, nf=None, kind=None, allow_zero=True):
    kind = kind or rng.choice(["uniform", "log", "random", "uniform0", "random0"])
    if not allow_zero and kind.endswith("0"):
        kind = kind[:-1]
    nf = int(nf if nf is not None else rng.integers(1, 41))
    if kind in ("uniform", "uniform0"):
        f0 = 0.0 if kind == "uniform0" else rng.uniform(0.01, 0.1)
        df = rng.uniform(0.005, 0.05)
        f = f0 + df * np.arange(nf)
    elif kind == "log":
        f = rng.uniform(0.02, 0.06) * rng.uniform(1.03, 1.2) ** np.arange(nf)
    else:
        f = np.cumsum(rng.uniform(0.002, 0.06, nf)) + rng.uniform(0.0, 0.05)
        if kind == "random0":
            f = f - f[0]
    return kind, np.asarray(f, dtype=float)


def dir_grid(rng, nd=None, kind=None):
    kind = kind or rng.choice(["uniform0", "uniform_off", "uniform_rot", "nonuniform", "nonuniform_rot", "uniform_gap"])
    nd = int(nd if nd is not None else rng.choice([8, 12, 16, 24, 36, 37, 48, 72, 90, 144]))
    step = 360.0 / nd
    if kind == "uniform0":
        d = np.arange(nd) * step
    elif kind == "uniform_off":
        d = rng.uniform(-180.0, 360.0) + np.arange(nd) * step
    elif kind == "uniform_gap":
        # evenly spaced along the array, but the bin that closes the circle is wider/narrower than the others,
        # e.g. np.arange(0, 350, 10) (35 bins) or np.linspace(0, 345, 36)
        # (the closing bin stays narrower than 180 degrees: with a wider one the wrapped bin width is negative and the
        # grid does not "cover the circle" in the sense of C02)
        s_ = float(rng.choice([0.8, 0.9, 0.97])) * step if rng.uniform() < 0.7 else step * nd / (nd + 1)
        d = float(rng.choice([0.0, 0.0, -180.0, 17.5])) + np.arange(nd) * s_
    elif kind == "uniform_rot":
        # values in [0,360) but cyclically rotated, e.g. [100,...,350,0,...,90]
        base = (np.arange(nd) * step + rng.integers(0, 4) * step / 4)
        base = base % 360
        base.sort()
        d = np.roll(base, -int(rng.integers(1, nd)))
    else:
        w = rng.uniform(0.5, 1.5, nd)
        w = w / w.sum() * 360.0
        d = np.cumsum(w) - w[0]
        if kind == "nonuniform":
            d = d + rng.uniform(-180.0, 0.0)
        else:
            d = (d + rng.uniform(0, 360)) % 360
            k = int(np.argmin(d))
            d = np.roll(d, -k)  # ascending again
            d = np.roll(d, -int(rng.integers(0, nd)))  # rotated start
    return kind, np.asarray(d, dtype=float)


def lead_shape(rng, layout):
    if layout == "scalar":
        return ()
    if layout == "time":
        return (int(rng.integers(1, 5)),)
    return (int(rng.integers(1, 4)), int(rng.integers(1, 4)))


# ---------------------------------------------------------------------------- densities
def density_1d(rng, f, lead, kind=None):
    kind = kind or rng.choice(["smooth", "spiky", "zeros", "multi"])
    nf = len(f)
    shape = lead + (nf,)
    fp = rng.uniform(f[0], f[-1] if nf > 1 else f[0] + 0.1, lead + (1,))
    width = rng.uniform(0.01, 0.1, lead + (1,))
    e = rng.uniform(0.1, 30, lead + (1,)) * np.exp(-0.5 * ((f - fp) / width) ** 2)
    e = e + rng.uniform(0, 0.05, shape)
    if kind == "spiky":
        e = e * rng.uniform(0, 1, shape) ** 4 + (rng.uniform(0, 1, shape) > 0.8) * rng.uniform(0, 50, shape)
    elif kind == "zeros":
        e = e * (rng.uniform(0, 1, shape) > 0.4)
    elif kind == "multi":
        fp2 = rng.uniform(f[0], f[-1] if nf > 1 else f[0] + 0.1, lead + (1,))
        e = e + rng.uniform(0.1, 30, lead + (1,)) * np.exp(-0.5 * ((f - fp2) / (0.5 * width)) ** 2)
    return kind, e


def apply_nan(rng, e, kind=None, axis_f=-1):
    """NaN patterns along the frequency axis (axis_f)."""
    kind = kind or rng.choice(["none", "none", "single", "run", "all_one_spectrum", "scatter"])
    e = np.array(e, dtype=float, copy=True)
    if kind == "none" or e.size == 0:
        return "none", e
    if kind == "single":
        idx = tuple(int(rng.integers(0, s)) for s in e.shape)
        e[idx] = np.nan
    elif kind == "run":
        nf = e.shape[axis_f]
        i0 = int(rng.integers(0, nf))
        i1 = int(rng.integers(i0, nf)) + 1
        sl = [slice(None)] * e.ndim
        sl[axis_f] = slice(i0, i1)
        e[tuple(sl)] = np.nan
    elif kind == "all_one_spectrum":
        if e.ndim + axis_f > 0 or (axis_f >= 0 and e.ndim > 1):
            lead_nd = e.ndim + axis_f if axis_f < 0 else axis_f
            idx = tuple(int(rng.integers(0, s)) for s in e.shape[:lead_nd])
            e[idx] = np.nan
        else:
            e[...] = np.nan
    elif kind == "scatter":
        e[rng.uniform(0, 1, e.shape) > 0.8] = np.nan
    return kind, e


def moments_in_disc(rng, shape, rmax=0.98):
    r = rmax * np.sqrt(rng.uniform(0, 1, shape))
    phi = rng.uniform(-np.pi, np.pi, shape)
    a1, b1 = r * np.cos(phi), r * np.sin(phi)
    r2 = rmax * np.sqrt(rng.uniform(0, 1, shape))
    phi2 = rng.uniform(-np.pi, np.pi, shape)
    a2, b2 = r2 * np.cos(phi2), r2 * np.sin(phi2)
    return a1, b1, a2, b2


def density_2d(rng, f, d, lead, kind=None):
    """non-negative directional densities"""
    kind = kind or rng.choice(["unimodal", "multimodal", "delta", "zeros", "noise"])
    nf, nd = len(f), len(d)
    _, e1 = density_1d(rng, f, lead, "smooth")
    th = np.deg2rad(d)
    shape = lead + (nf, nd)
    mean = rng.uniform(-np.pi, np.pi, lead + (nf, 1))
    if kind == "delta":
        D = np.zeros(shape)
        idx = rng.integers(0, nd, lead + (nf,))
        np.put_along_axis(D, idx[..., None], 1.0, axis=-1)
    else:
        kappa = rng.uniform(0.2, 30, lead + (nf, 1))
        D = np.exp(kappa * (np.cos(th - mean) - 1))
        if kind == "multimodal":
            mean2 = rng.uniform(-np.pi, np.pi, lead + (nf, 1))
            D = D + rng.uniform(0.1, 2, lead + (nf, 1)) * np.exp(
                rng.uniform(1, 40, lead + (nf, 1)) * (np.cos(th - mean2) - 1))
        elif kind == "zeros":
            D = D * (rng.uniform(0, 1, shape) > 0.5)
        elif kind == "noise":
            D = rng.uniform(0, 1, shape) ** 3
    E = e1[..., None] * D
    return kind, E


# ---------------------------------------------------------------------------- cases
def _lead_vars(rng, layout, lead, depth_kind=None):
    depth_kind = depth_kind or rng.choice(["inf", "finite", "mixed"])
    n = int(np.prod(lead)) if lead else 1
    if depth_kind == "inf":
        depth = np.full(n, np.inf)
    elif depth_kind == "finite":
        depth = 10 ** rng.uniform(-0.5, 3.5, n)
    else:
        depth = 10 ** rng.uniform(-0.5, 3.5, n)
        choice = rng.integers(0, 3, n)
        depth = np.where(choice == 0, np.inf, np.where(choice == 1, np.nan, depth))
    out = {"depth_kind": str(depth_kind)}
    if layout in ("time_lat", "flat"):
        nt, nl = lead
        out["time"] = (np.cumsum(rng.integers(600, 7200, nt)) + int(rng.integers(0, 10 ** 9))).astype("int64")
        out["lat"] = np.sort(rng.uniform(-80, 80, nl))
        out["lon"] = rng.uniform(-180, 180, lead)
        out["depth"] = depth.reshape(lead)
    elif layout == "time":
        (nt,) = lead
        out["time"] = (np.cumsum(rng.integers(600, 7200, nt)) + int(rng.integers(0, 10 ** 9))).astype("int64")
        out["lat"] = rng.uniform(-80, 80, nt)
        out["lon"] = rng.uniform(-180, 180, nt)
        out["depth"] = depth.reshape(lead)
    else:
        out["time"] = np.array([int(rng.integers(0, 10 ** 9))], dtype="int64")
        out["lat"] = np.array([rng.uniform(-80, 80)])
        out["lon"] = np.array([rng.uniform(-180, 180)])
        out["depth"] = depth.reshape((1,))
    return out


def case_1d(rng, layout=None, nf=None, fkind=None, ekind=None, nankind="none", depth_kind=None,
            rmax=0.98, allow_zero=True):
    layout = str(layout or rng.choice(LAYOUTS))
    lead = lead_shape(rng, layout)
    fkind, f = freq_grid(rng, nf, fkind, allow_zero)
    ekind, e = density_1d(rng, f, lead, ekind)
    nankind, e = apply_nan(rng, e, nankind)
    a1, b1, a2, b2 = moments_in_disc(rng, e.shape, rmax)
    c = {"kind": "1d", "layout": layout, "fkind": str(fkind), "ekind": str(ekind),
         "nankind": str(nankind), "freq": f, "E": e, "a1": a1, "b1": b1, "a2": a2, "b2": b2}
    c.update(_lead_vars(rng, layout, lead, depth_kind))
    return c


def case_2d(rng, layout=None, nf=None, nd=None, fkind=None, dkind=None, ekind=None,
            nankind="none", depth_kind=None, allow_zero=True):
    layout = str(layout or rng.choice(LAYOUTS))
    lead = lead_shape(rng, layout)
    if nf is None:
        nf = int(rng.integers(1, 25))
    fkind, f = freq_grid(rng, nf, fkind, allow_zero)
    dkind, d = dir_grid(rng, nd, dkind)
    ekind, E = density_2d(rng, f, d, lead, ekind)
    if nankind != "none":
        nankind = nankind or rng.choice(["none", "single", "row", "scatter", "all_one_spectrum"])
        if nankind == "row":  # all directions of one frequency row
            E = np.array(E)
            idx = tuple(int(rng.integers(0, s)) for s in E.shape[:-1])
            E[idx] = np.nan
        elif nankind == "scatter":
            E = np.array(E)
            E[rng.uniform(0, 1, E.shape) > 0.85] = np.nan
        elif nankind == "single":
            E = np.array(E)
            E[tuple(int(rng.integers(0, s)) for s in E.shape)] = np.nan
        elif nankind == "all_one_spectrum":
            E = np.array(E)
            E[tuple(int(rng.integers(0, s)) for s in E.shape[:-2])] = np.nan
    c = {"kind": "2d", "layout": layout, "fkind": str(fkind), "dkind": str(dkind),
         "ekind": str(ekind), "nankind": str(nankind), "freq": f, "dir": d, "E": E}
    c.update(_lead_vars(rng, layout, lead, depth_kind))
    return c


def descriptor(c):
    d = [c["kind"], c["layout"], c["fkind"], c["ekind"], c["nankind"], c.get("depth_kind"),
         min(len(c["freq"]), 3)]
    if c["kind"] == "2d":
        d += [c["dkind"], len(c["dir"])]
    return tuple(d)


# ---------------------------------------------------------------------------- build
def build(c):
    """Construct the repository's spectrum object for a case."""
    from ocean_science_utilities.wavespectra.spectrum import (
        create_1d_spectrum, create_2d_spectrum)
    layout = c["layout"]
    time = np.asarray(c["time"]).astype("int64").astype("datetime64[s]")
    # the object gets private copies: whatever the code under test writes into its own arrays must never reach the
    # generator case (which oracles and "fresh object" references are computed from)
    c = {k: (np.array(v, copy=True) if isinstance(v, np.ndarray) else v) for k, v in c.items()}
    with warnings.catch_warnings():
        warnings.simplefilter("ignore")
        if c["kind"] == "1d":
            if layout == "scalar":
                s = create_1d_spectrum(c["freq"], c["E"], time, c["lat"], c["lon"],
                                       c["a1"], c["b1"], c["a2"], c["b2"], depth=c["depth"],
                                       dims=("frequency",))
            elif layout == "time":
                s = create_1d_spectrum(c["freq"], c["E"], time, c["lat"], c["lon"],
                                       c["a1"], c["b1"], c["a2"], c["b2"], depth=c["depth"],
                                       dims=("time", "frequency"))
            else:
                s = create_1d_spectrum(c["freq"], c["E"], time, c["lat"], c["lon"],
                                       c["a1"], c["b1"], c["a2"], c["b2"], depth=c["depth"],
                                       dims=("time", "latitude", "frequency"))
        else:
            if layout == "scalar":
                s = create_2d_spectrum(c["freq"], c["dir"], c["E"], time, c["lat"], c["lon"],
                                       dims=("frequency", "direction"), depth=c["depth"])
            elif layout == "time":
                s = create_2d_spectrum(c["freq"], c["dir"], c["E"], time, c["lat"], c["lon"],
                                       dims=("time", "frequency", "direction"), depth=c["depth"])
            else:
                s = create_2d_spectrum(c["freq"], c["dir"], c["E"], time, c["lat"], c["lon"],
                                       dims=("time", "latitude", "frequency", "direction"),
                                       depth=c["depth"])
        if layout == "flat":
            s = s.flatten()
    return s


def raw_arrays(c):
    """(E flattened to (npoints, nf[, nd]), lead shape) - for oracles, from the case alone."""
    E = np.asarray(c["E"], dtype=float)
    nspec = 1 if c["kind"] == "1d" else 2
    lead = E.shape[:-nspec]
    out_lead = lead
    if c["layout"] == "flat":
        out_lead = (int(np.prod(lead)),)
    return E.reshape((-1,) + E.shape[-nspec:]), out_lead
