"""pytest plugin: runs the repository's own tests with the spectrum contracts (C01-C04) installed.
   PYTHONPATH=/verif:/verif/.deps  pytest -p vmon.pytest_plugin ...   (report -> $VMON_PLUGIN_OUT)"""
import json
import os

_ctx = None


def pytest_configure(config):
    global _ctx
    from vmon.core import Ctx
    from vmon.monitors import spectrum as ms
    _ctx = Ctx(os.environ.get("VMON_PLUGIN_PROP", "C01"), "thorough", 0, 999)
    _ctx.reach.start()
    ms.install(_ctx)


def pytest_runtest_logreport(report):
    if _ctx is not None and report.when == "call":
        _ctx.count("repo_tests_run")
        if report.passed:
            _ctx.count("repo_tests_passed")


def pytest_sessionfinish(session, exitstatus):
    if _ctx is None:
        return
    _ctx.reach.stop()
    out = os.environ.get("VMON_PLUGIN_OUT")
    if out:
        with open(out, "w") as fh:
            json.dump(_ctx.report(), fh)
