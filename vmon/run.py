"""Driver and worker entry point:  python -m vmon.run Cxx [--tier quick|thorough] [--replay F]"""
from __future__ import annotations

import argparse
import faulthandler
import hashlib
import importlib
import json
import os
import signal
import subprocess
import sys
import time
import traceback

from . import core
from .core import Ctx, VERIF, enc, dec

EXIT_HELD, EXIT_VIOLATED, EXIT_INCONCLUSIVE = 0, 1, 2


def load(prop):
    return importlib.import_module(f"vmon.props.{prop.lower()}")


# ---------------------------------------------------------------------------
# worker
# ---------------------------------------------------------------------------
def worker(args):
    faulthandler.enable()
    mod = load(args.prop)
    with open(args.shard_file) as fh:
        shard = dec(json.load(fh))
    ctx = Ctx(args.prop, args.tier, args.seed, shard.get("index", 0))
    ctx.reach.start()
    status = "ok"
    err = None
    try:
        if args.replay_case:
            mod.replay(ctx, shard["case"])
        else:
            mod.run_shard(ctx, shard)
    except BaseException as e:  # noqa
        tb = traceback.extract_tb(e.__traceback__)
        inner = tb[-1].filename if tb else ""
        text = traceback.format_exc(limit=12)
        in_repo = any(f.filename.startswith(core.REPO_SRC) for f in tb)
        in_harness_last = inner.startswith(VERIF)
        if in_repo and not in_harness_last and isinstance(e, Exception):
            # the repository raised where the property requires a value
            ctx.check("no-exception", False, {"shard": shard},
                      {"exception": repr(e), "traceback": text},
                      key="exception-in-repo:" + type(e).__name__)
        else:
            status = "harness-error"
            err = text
    ctx.reach.stop()
    rep = ctx.report()
    rep["status"] = status
    rep["error"] = err
    with open(args.out, "w") as fh:
        json.dump(rep, fh)
    return 0


# ---------------------------------------------------------------------------
# driver
# ---------------------------------------------------------------------------
def base_env(extra=None):
    env = dict(os.environ)
    th = core.tree_hash()
    suffix = ""
    if extra and extra.get("NUMBA_BOUNDSCHECK") == "1":
        suffix = "-bc"
    cache_root = os.path.join(VERIF, ".cache", "numba")
    env["NUMBA_CACHE_DIR"] = os.path.join(cache_root, th + suffix)
    env["PYTHONHASHSEED"] = "0"
    # the repository's src first: identical to the editable install for /repo, and lets VERIF_REPO point the
    # checks at a scratch worktree (used only when developing the monitors; registered commands use /repo)
    env["PYTHONPATH"] = os.pathsep.join([core.REPO_SRC, VERIF, os.path.join(VERIF, ".deps")])
    env["PYTHONDONTWRITEBYTECODE"] = "1"
    env["OSU_VERIF"] = "1"
    env.setdefault("NUMBA_NUM_THREADS", "4")
    env["OMP_NUM_THREADS"] = "1"
    env["OPENBLAS_NUM_THREADS"] = "1"
    env["MKL_NUM_THREADS"] = "1"
    env["TZ"] = env.get("VERIF_TZ", "UTC")
    if extra:
        env.update({k: str(v) for k, v in extra.items()})
    return env, th


def prune_cache(keep):
    root = os.path.join(VERIF, ".cache", "numba")
    try:
        entries = [os.path.join(root, d) for d in os.listdir(root)]
    except FileNotFoundError:
        return
    entries = [e for e in entries if os.path.basename(e).split("-")[0] != keep]
    entries.sort(key=lambda p: os.path.getmtime(p), reverse=True)
    import shutil
    for e in entries[2:]:
        shutil.rmtree(e, ignore_errors=True)


def run_shards(prop, tier, seed, shards, jobs, timeout, replay=False):
    work = os.path.join(VERIF, ".work", f"{prop}-{os.getpid()}")
    os.makedirs(work, exist_ok=True)
    pending = list(enumerate(shards))
    running = {}
    reports = []
    problems = []
    th = None
    while pending or running:
        while pending and len(running) < jobs:
            i, shard = pending.pop(0)
            shard = dict(shard)
            shard.setdefault("index", i)
            sf = os.path.join(work, f"shard{i}.json")
            of = os.path.join(work, f"out{i}.json")
            lf = os.path.join(work, f"log{i}.txt")
            with open(sf, "w") as fh:
                json.dump(enc(shard), fh)
            env, th = base_env(shard.get("env"))
            env["VERIF_WORK"] = os.path.join(work, f"w{i}")
            os.makedirs(env["VERIF_WORK"], exist_ok=True)
            cmd = [sys.executable, "-X", "faulthandler", "-m", "vmon.run", prop, "--worker",
                   "--tier", tier, "--seed", str(seed), "--shard-file", sf, "--out", of]
            if replay:
                cmd.append("--replay-case")
            log = open(lf, "w")
            p = subprocess.Popen(cmd, cwd=VERIF, env=env, stdout=log, stderr=subprocess.STDOUT,
                                 start_new_session=True)
            running[i] = (p, time.time(), shard, of, lf, log)
        time.sleep(0.05)
        for i in list(running):
            p, t0, shard, of, lf, log = running[i]
            rc = p.poll()
            if rc is None:
                if time.time() - t0 > shard.get("timeout", timeout):
                    try:
                        os.killpg(p.pid, signal.SIGKILL)
                    except ProcessLookupError:
                        pass
                    p.wait()
                    log.close()
                    problems.append({"kind": "watchdog", "shard": shard.get("index"),
                                     "log": tail(lf)})
                    del running[i]
                continue
            log.close()
            del running[i]
            if os.path.exists(of):
                with open(of) as fh:
                    rep = json.load(fh)
                rep["shard_desc"] = shard
                reports.append(rep)
                if rep.get("status") != "ok":
                    problems.append({"kind": "harness-error", "shard": shard.get("index"),
                                     "log": rep.get("error")})
            elif rc < 0 or rc in (134, 139):
                # the interpreter died (signal) while executing repository/JIT code
                problems.append({"kind": "crash", "signal": -rc if rc < 0 else rc,
                                 "shard": shard, "log": tail(lf)})
            else:
                problems.append({"kind": "worker-exit", "rc": rc, "shard": shard.get("index"),
                                 "log": tail(lf)})
    import shutil
    if not os.environ.get("VERIF_KEEP_WORK"):
        shutil.rmtree(work, ignore_errors=True)
    return reports, problems, th


def tail(path, n=40):
    try:
        with open(path, errors="replace") as fh:
            return "".join(fh.readlines()[-n:])
    except OSError:
        return ""


def load_known():
    p = os.path.join(VERIF, "known_findings.json")
    try:
        with open(p) as fh:
            return json.load(fh)
    except FileNotFoundError:
        return {"findings": [], "fixed": []}


def merge(reports):
    out = {"evaluations": 0, "descriptors": {}, "monitors": {}, "counters": {}, "samples": [],
           "violations": [], "violation_keys": {}, "notes": [], "reach": set(), "wall": 0.0, "observed_sets": {}}
    for r in sorted(reports, key=lambda r: r["shard"]):
        out["evaluations"] += r["evaluations"]
        for d, nt in r["descriptors"].items():
            out["descriptors"][d] = out["descriptors"].get(d, False) or nt
        for name, m in r["monitors"].items():
            t = out["monitors"].setdefault(name, {"evals": 0, "fails": 0, "worst": 0.0})
            t["evals"] += m["evals"]
            t["fails"] += m["fails"]
            t["worst"] = max(t["worst"], m["worst"])
        for k, v in r["counters"].items():
            out["counters"][k] = out["counters"].get(k, 0) + v
        for s in r["samples"]:
            if len(out["samples"]) < 6:
                out["samples"].append(s)
        out["violations"].extend(r["violations"])
        for k, v in r["violation_keys"].items():
            out["violation_keys"][k] = out["violation_keys"].get(k, 0) + v
        for n in r["notes"]:
            if n not in out["notes"]:
                out["notes"].append(n)
        out["reach"].update(r["reach"])
        for k, vals in r.get("observed_sets", {}).items():
            out["observed_sets"].setdefault(k, set()).update(vals)
        out["wall"] += r["wall_s"]
    return out


def driver(args):
    t0 = time.time()
    prop = args.prop
    mod = load(prop)
    tier, seed = args.tier, args.seed
    if args.replay:
        with open(args.replay) as fh:
            rp = json.load(fh)
        shards = [{"case": dec(rp["case"]), "env": rp.get("env") or {}}]
        replay = True
    else:
        shards = mod.plan(tier, seed)
        replay = False
    jobs = args.jobs or min(getattr(mod, "JOBS", 16), os.cpu_count() or 4)
    timeout = getattr(mod, "TIMEOUT", {"quick": 900, "thorough": 3600})[tier]
    warm = getattr(mod, "WARMUP_SHARD", None)
    pre_reports, pre_problems = [], []
    if warm is not None and not replay:
        # one worker first: fills the on-disk JIT cache so that the other workers do not all compile at once
        w = dict(warm)
        w["index"] = 10 ** 6
        pre_reports, pre_problems, _ = run_shards(prop, tier, seed, [w], 1, timeout, False)
    reports, problems, th = run_shards(prop, tier, seed, shards, jobs, timeout, replay)
    reports = pre_reports + reports
    problems = pre_problems + problems
    prune_cache(th)
    m = merge(reports)

    # Monitors of *other* properties stay installed while this workload runs (they observe every
    # call); their failures are reported as cross-observations but only this property's own monitors
    # decide this property's verdict.
    def own(key):
        return key.startswith((prop + ":", prop + ".", "exception-in-repo", "crash"))
    foreign = {k: v for k, v in m["violation_keys"].items() if not own(k)}
    m["violation_keys"] = {k: v for k, v in m["violation_keys"].items() if own(k)}
    m["violations"] = [v for v in m["violations"] if own(v["key"])]

    known = load_known()
    open_keys = {f["key"]: f for f in known.get("findings", [])
                 if f["property"] == prop and f.get("status", "open") == "open"}

    # crashes of the interpreter inside JIT code are violations ("returns without raising")
    for pr in problems:
        if pr["kind"] == "crash":
            k = f"crash:signal{pr['signal']}"
            m["violation_keys"][k] = m["violation_keys"].get(k, 0) + 1
            m["violations"].append({"monitor": "no-crash", "key": k,
                                    "detail": {"log": pr["log"]},
                                    "case": {"shard": enc(pr["shard"])}})

    def match_known(key):
        for k in open_keys:
            if key == k or key.startswith(k + ":"):
                return open_keys[k]
        return None

    rdir = os.path.join(VERIF, "replays", prop)
    new_viol = []
    known_hit = {}
    for v in m["violations"]:
        kf = match_known(v["key"])
        if kf:
            known_hit.setdefault(kf["key"], kf)
            continue
        os.makedirs(rdir, exist_ok=True)
        body = {"property": prop, "monitor": v["monitor"], "key": v["key"],
                "detail": v["detail"], "case": v["case"], "tree": th, "seed": seed, "tier": tier}
        hname = hashlib.sha256(json.dumps(body, sort_keys=True).encode()).hexdigest()[:12]
        path = os.path.join(rdir, f"{v['key'].replace('/', '_').replace(':', '-')[:60]}-{hname}.json")
        with open(path, "w") as fh:
            json.dump(body, fh, indent=1)
        new_viol.append((v, path))
    # keys counted but whose witnesses were dropped (cap) are still violations
    unlisted = [k for k in m["violation_keys"] if not match_known(k)]

    # inconclusive reasons
    inconclusive = []
    for pr in problems:
        if pr["kind"] != "crash":
            inconclusive.append(f"{pr['kind']} shard={pr.get('shard')}")
            sys.stderr.write(f"--- {pr['kind']} ---\n{pr.get('log')}\n")
    if not replay:
        for name in getattr(mod, "REQUIRED_MONITORS", []):
            if m["monitors"].get(name, {}).get("evals", 0) == 0:
                inconclusive.append(f"monitor {name} never evaluated")
        for q in getattr(mod, "REQUIRED_REACH", []):
            if not any(r.endswith(q) for r in m["reach"]):
                inconclusive.append(f"anchor {q} never executed")
        for cname, minimum in getattr(mod, "REQUIRED_COUNTERS", {}).items():
            if m["counters"].get(cname, 0) < minimum:
                inconclusive.append(f"counter {cname}={m['counters'].get(cname, 0)} < {minimum}")
    nontrivial = sum(1 for v in m["descriptors"].values() if v)
    if not replay and nontrivial < 2:
        inconclusive.append("fewer than 2 distinct non-trivial cases")

    violated = bool(unlisted)
    verdict = "violated" if violated else ("inconclusive" if inconclusive else "held")

    wall = time.time() - t0
    if not replay:
        ev = {
            "property_id": prop,
            "tier": tier,
            "seed": seed,
            "level": mod.LEVEL,
            "coverage": {
                "evaluations": m["evaluations"],
                "distinct_nontrivial": nontrivial,
                "rule": mod.RULE,
                "samples": m["samples"][:5],
                "exhaustive": bool(getattr(mod, "EXHAUSTIVE", {}).get(tier, False)),
                "distinct_descriptors": len(m["descriptors"]),
                "monitors": {k: {"evaluations": v["evals"], "failures": v["fails"],
                                 "worst_deviation_over_bound": round(v["worst"], 6)}
                             for k, v in sorted(m["monitors"].items())},
                "observed": dict(sorted(m["counters"].items())),
                "distinct_states_observed": {k: {"count": len(v), "examples": sorted(v)[:5]}
                                             for k, v in sorted(m["observed_sets"].items())},
                "repo_functions_executed": sorted(m["reach"]),
                "shards": len(shards),
                "shards_reported": len(reports),
                "notes": m["notes"],
                "verdict": verdict,
                "inconclusive_reasons": inconclusive,
                "known_findings_seen": sorted(known_hit),
                "violation_keys": m["violation_keys"],
                "failures_of_other_properties_monitors": foreign,
                "tree_hash": th,
            },
            "assumptions": getattr(mod, "ASSUMPTIONS", []),
            "wall_s": round(wall, 2),
            "violations": sum(v for k, v in m["violation_keys"].items() if not match_known(k)),
        }
        os.makedirs(os.path.join(VERIF, "evidence"), exist_ok=True)
        tmp = os.path.join(VERIF, "evidence", f".{prop}.json.tmp")
        with open(tmp, "w") as fh:
            json.dump(ev, fh, indent=1)
        os.replace(tmp, os.path.join(VERIF, "evidence", f"{prop}.json"))

    for k, kf in sorted(known_hit.items()):
        print(f"KNOWN-FINDING: property={prop} {kf['what']}")
    mons = ", ".join(f"{k}={v['evals']}" for k, v in sorted(m["monitors"].items()))
    print(f"[{prop}] tier={tier} seed={seed} cases={m['evaluations']} distinct_nontrivial={nontrivial} "
          f"wall={wall:.1f}s")
    print(f"[{prop}] monitor evaluations: {mons}")
    if m["counters"]:
        print(f"[{prop}] observed: " + ", ".join(f"{k}={v}" for k, v in sorted(m["counters"].items())))
    if foreign:
        print(f"[{prop}] note: monitors of other properties failed during this workload "
              f"(not part of this verdict): {foreign}")
    if violated:
        shown = set()
        for v, path in new_viol:
            if v["key"] in shown:
                continue
            shown.add(v["key"])
            d = json.dumps(v["detail"])[:600]
            print(f"  monitor={v['monitor']} key={v['key']} count={m['violation_keys'].get(v['key'])} detail={d}")
            print(f"VIOLATION property={prop} replay={path}")
        for k in unlisted:
            if k not in shown:
                print(f"VIOLATION property={prop} replay={rdir}")
        return EXIT_VIOLATED
    if inconclusive:
        print(f"INCONCLUSIVE property={prop} reason={'; '.join(inconclusive)}")
        return EXIT_INCONCLUSIVE
    print(f"HELD property={prop} (on everything observed in this run)")
    return EXIT_HELD


def main():
    ap = argparse.ArgumentParser()
    ap.add_argument("prop")
    ap.add_argument("--tier", default=os.environ.get("VERIF_TIER", "quick"))
    ap.add_argument("--seed", type=int, default=int(os.environ.get("VERIF_SEED", "0")))
    ap.add_argument("--replay")
    ap.add_argument("--jobs", type=int, default=0)
    ap.add_argument("--worker", action="store_true")
    ap.add_argument("--shard-file")
    ap.add_argument("--out")
    ap.add_argument("--replay-case", action="store_true")
    args = ap.parse_args()
    args.prop = args.prop.upper()
    if args.worker:
        sys.exit(worker(args))
    sys.exit(driver(args))


if __name__ == "__main__":
    main()
