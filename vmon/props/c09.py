"""C09 - source terms, roughness and stress are invariant under joint rotation / mirroring."""
from __future__ import annotations

import numpy as np

from ..core import guarded
from .. import wavelab as wl
from ..oracles.spectral import circ_diff

PROPERTY = "C09"
LEVEL = "exploration"
RULE = ("every spectrum/wind class of C08 on uniform direction grids N in {16,24,36}; the spectrum is rolled by k bins "
        "and the wind direction increased by k*360/N (quick: 3 random k + mirror; thorough: all k + mirror); the real "
        "code is run on both members of the pair and the outputs compared: spectral wind input and dissipation fields "
        "(rolled), bulk rates, roughness, stress magnitude, estimated U10 (unchanged), stress direction, "
        "dissipation-weighted direction, estimated wind direction (shifted modulo 360; negated for the mirror). "
        "distinct = (kind, N, pair, transformation class); non-trivial = k != 0 or mirror.")
ASSUMPTIONS = ["fields compared at rtol 1e-9 of the field maximum with the roughness of the original supplied to both "
               "members; quantities that pass through an iterative solver (roughness, stress, U10) at rtol 1e-6",
               "angles compared modulo 360 at 1e-4 degrees"]
REQUIRED_MONITORS = ["C09.rot:generation-field", "C09.rot:dissipation-field", "C09.rot:bulk-rates", "C09.rot:roughness",
                     "C09.rot:stress-magnitude", "C09.rot:stress-direction", "C09.rot:dissipation-direction",
                     "C09.mirror:generation-field", "C09.mirror:dissipation-field", "C09.mirror:stress-direction",
                     "C09.mirror:dissipation-direction", "C09.rot:inversion", "C09.rot:inversion(direction-iteration)"]
REQUIRED_COUNTERS = {"C09.N:16": 1, "C09.N:24": 1, "C09.N:36": 1}
TIMEOUT = {"quick": 1800, "thorough": 7200}
N = {"quick": (6, 6), "thorough": (12, 8)}


def plan(tier, seed):
    ns, per = N[tier]
    return [{"n": per, "allk": tier == "thorough"} for _ in range(ns)]


def outputs(b, c, E, wdir, z_supplied, with_inversion):
    """run the real code for one member of a pair"""
    from ocean_science_utilities.wavephysics.windestimate import estimate_u10_from_source_terms
    s = wl.build(c, E)
    u, wd = wl.da(c["u10"]), wl.da(wdir)
    out = {}
    z = b.generation.roughness(u, wd, s)
    out["roughness"] = np.asarray(z.values, float)
    zs = wl.da(z_supplied) if z_supplied is not None else wl.da(np.where(np.isfinite(out["roughness"]), out["roughness"], 2e-4))
    out["z_used"] = np.asarray(zs.values, float)
    out["gen"] = np.asarray(b.generation.rate(s, u, wd, roughness_length=zs).values, float)
    out["gen_bulk"] = np.asarray(b.generation.bulk_rate(s, u, wd, roughness_length=zs).values, float)
    out["dis"] = np.asarray(b.dissipation.rate(s).values, float)
    out["dis_bulk"] = np.asarray(b.dissipation.bulk_rate(s).values, float)
    out["dis_dir"] = np.asarray(b.dissipation.mean_direction_degrees(s).values, float)
    st = b.generation.stress(s, u, wd, roughness_length=zs)
    out["stress"] = np.asarray(st["stress"].values, float)
    out["stress_dir"] = np.asarray(st["direction"].values, float)
    if with_inversion:
        inv = estimate_u10_from_source_terms(s, b)
        out["inv_u10"] = np.asarray(inv["u10"].values, float)
        out["inv_dir"] = np.asarray(inv["direction"].values, float)
        # the same with the wind direction iterated towards the stress direction
        inv2 = estimate_u10_from_source_terms(s, b, direction_iteration=True)
        out["invit_u10"] = np.asarray(inv2["u10"].values, float)
        out["invit_dir"] = np.asarray(inv2["direction"].values, float)
    return out


def compare(ctx, tag, base, other, field_map, shift, sign, wit, pair, rescue=None, zsolve=None):
    def fld(name, mon, key):
        a, b_ = field_map(base[name]), other[name]
        sc = float(np.max(np.abs(a), initial=0))
        ctx.close(f"C09.{tag}:{mon}", b_, a, atol=1e-9 * sc + 1e-300, rtol=0, case=wit, key=f"C09:{tag}:{key}")
    fld("gen", "generation-field", "generation")
    # classify the ST4 saturation-window artefact separately (see known findings)
    a, b_ = field_map(base["dis"]), other["dis"]
    sc = float(np.max(np.abs(a), initial=0))
    dev = float(np.max(np.abs(a - b_), initial=0))
    key = f"C09:{tag}:dissipation"
    ctx.check(f"C09.{tag}:dissipation-field", dev <= 1e-9 * sc + 1e-300, wit,
              {"max_dev_rel": dev / sc if sc else 0.0, "pair": pair}, key=key)
    ctx.ratio(f"C09.{tag}:dissipation-field", dev, 1e-9 * sc + 1e-300)
    for nm in ("gen_bulk", "dis_bulk"):
        ctx.close(f"C09.{tag}:bulk-rates", other[nm], base[nm], atol=1e-300, rtol=1e-8, case=wit, key=f"C09:{tag}:bulk")
    zb, zo = base["roughness"], other["roughness"]
    fin = np.isfinite(zb) & np.isfinite(zo)
    mism = (np.isfinite(zb) != np.isfinite(zo)) | (fin & (np.abs(zo - zb) > 1e-6 * np.abs(zb)))
    if mism.any():
        # The implicit roughness equation may have several solutions and its cold-started Newton iteration may run
        # into the iteration limit (-> NaN); which of these happens can depend on rounding (summation order changes
        # under rotation). Classify: if each member's answer is also a solution of the OTHER member's equation
        # (warm start there returns it), or is not a solution of its own equation either (false convergence), the
        # equation is invariant and only the solver path differs (known finding); anything else is an
        # unclassified violation.
        key = f"C09:{tag}:roughness"
        if zsolve is not None:
            same_equation = True
            for i in np.where(mism)[0]:
                for src, own, dst in ((zb, "base", "other"), (zo, "other", "base")):
                    if np.isfinite(src[i]):
                        g = np.where(np.isfinite(src), src, 2e-4)
                        same = lambda z: bool(np.isfinite(z[i]) and abs(z[i] - src[i]) <= 1e-5 * abs(src[i]))  # noqa
                        if not same(zsolve(own, g)):
                            # not even reproduced by its own equation when restarted there: the solver stopped
                            # on a zero step away from a root (the C10 known finding), nothing to compare
                            ctx.count("C09.roughness_answers_that_are_not_solutions")
                            continue
                        if not same(zsolve(dst, g)):
                            same_equation = False
            if same_equation:
                key = f"C09:{tag}:roughness:solver-path-sensitive"
        ctx.count("C09.roughness_mismatch_points", int(mism.sum()))
        ctx.check(f"C09.{tag}:roughness", False, wit, {"base": zb, "other": zo}, key=key)
    else:
        ctx.check(f"C09.{tag}:roughness", True, wit, None, key=f"C09:{tag}:roughness")
        if fin.any():
            ctx.ratio(f"C09.{tag}:roughness", float(np.max(np.abs(zo[fin] - zb[fin]) / np.abs(zb[fin]))), 1e-6)
    ctx.close(f"C09.{tag}:stress-magnitude", other["stress"], base["stress"], atol=1e-300, rtol=1e-6, case=wit,
              key=f"C09:{tag}:stress")
    for nm, mon in (("stress_dir", "stress-direction"), ("dis_dir", "dissipation-direction")):
        ok = np.isfinite(base[nm]) & np.isfinite(other[nm])
        if nm == "dis_dir":
            ok = ok & (base["dis_bulk"] < 0)
        dev = np.abs(circ_diff(other[nm][ok], sign * base[nm][ok] + shift))
        ctx.check(f"C09.{tag}:{mon}", bool(np.all(dev <= 1e-4)), wit, {"base": base[nm], "other": other[nm], "shift": shift},
                  key=f"C09:{tag}:{nm}")
        if dev.size:
            ctx.ratio(f"C09.{tag}:{mon}", float(dev.max()), 1e-4)
    compare_inversion(ctx, tag, base, other, shift, sign, wit, rescue)


def compare_inversion(ctx, tag, base, other, shift, sign, wit, rescue=None):
    """rescue(which, iterate) -> list of u10 arrays obtained for member `which` ("base"/"other") from other first
    guesses; used only to classify a NaN-vs-finite disagreement (C11 known finding: for some first guesses the
    solver gives up although another guess converges)"""
    for pre, mon, iterate, dtol in (("invit", "inversion(direction-iteration)", True, 1e-2), ("inv", "inversion", False, 1e-4)):
        if pre + "_u10" not in base or pre + "_u10" not in other:
            continue
        a, b_ = base[pre + "_u10"], other[pre + "_u10"]
        # winds outside 3..40 m/s are outside the property's range (and below 3 m/s the balance is a flat staircase)
        inr = lambda x: np.isfinite(x) & (x >= 3.0) & (x <= 40.0)  # noqa
        judged = inr(a) | inr(b_)
        fin = np.isfinite(a) & np.isfinite(b_) & judged
        okv = bool(np.all(np.abs(a[fin] - b_[fin]) <= 0.03 + 1e-6 * np.abs(a[fin])))
        ctx.check(f"C09.{tag}:{mon}", okv, wit, {"base": a, "other": b_}, key=f"C09:{tag}:{pre}:u10")
        nan_mis = judged & (np.isnan(a) != np.isnan(b_))
        if nan_mis.any():
            key = f"C09:{tag}:{pre}:nan-for-one-member"
            if rescue is not None:
                ok_all = True
                for i in np.where(nan_mis)[0]:
                    which = "other" if np.isnan(b_[i]) else "base"
                    ref = a[i] if which == "other" else b_[i]
                    alts = rescue(which, iterate)
                    if not any(np.isfinite(u[i]) and abs(u[i] - ref) <= 0.05 for u in alts):
                        ok_all = False
                if ok_all:
                    key = f"C09:{tag}:nan-first-guess-sensitive"
            ctx.count("C09.nan_for_one_member_of_a_pair", int(nan_mis.sum()))
            ctx.check(f"C09.{tag}:{mon}", False, wit, {"base": a, "other": b_}, key=key)
        da_, db_ = base[pre + "_dir"], other[pre + "_dir"]
        okd = np.isfinite(da_) & np.isfinite(db_) & fin
        dev = np.abs(circ_diff(db_[okd], sign * da_[okd] + shift))
        ctx.check(f"C09.{tag}:{mon}", bool(np.all(dev <= dtol)), wit, {"base": da_, "other": db_, "shift": shift},
                  key=f"C09:{tag}:{pre}:direction")


def make_rescue(b, c, E, s_other):
    from ocean_science_utilities.wavephysics.balance.wind_inversion import windspeed_and_direction_from_spectra
    from ocean_science_utilities.wavephysics.windestimate import estimate_u10_from_spectrum
    s_base = wl.build(c, E)

    def rescue(which, iterate):
        sp = s_other if which == "other" else s_base
        guess = estimate_u10_from_spectrum(sp, "peak", direction_convention="going_to_counter_clockwise_east")["u10"]
        out = []
        for gval in [guess * f_ for f_ in (0.5, 0.8, 1.25, 2.0)] + [guess * 0 + g_ for g_ in (8.0, 15.0, 25.0)]:
            try:
                r_ = windspeed_and_direction_from_spectra(b, gval, sp, direction_iteration=iterate)
                out.append(np.asarray(r_["u10"].values, float))
            except Exception:
                pass
        return out
    return rescue


def make_zsolve(b, c, E_base, wdir_base, E_other, wdir_other, c_other=None):
    def zsolve(which, guess):
        E_, w_ = (E_other, wdir_other) if which == "other" else (E_base, wdir_base)
        s_ = wl.build(c_other if (which == "other" and c_other is not None) else c, E_)
        return np.asarray(b.generation.roughness(wl.da(c["u10"]), wl.da(w_), s_, roughness_length_guess=wl.da(guess)).values, float)
    return zsolve


def judge(ctx, c):
    pair = c["pair"]
    g, d = pair.split("/")
    b = wl.make_balance(g, d, c.get("gen_params"), c.get("dis_params"))
    E = np.asarray(c["E"], float)
    nd = E.shape[-1]
    step = 360.0 / nd
    wdir = np.asarray(c["wdir"], float)
    ctx.count(f"C09.N:{nd}")
    wit0 = lambda: {"gen": c}  # noqa
    with_inv = bool(c.get("inversion"))
    ok, base = guarded(ctx, "C09.no-exception", lambda: outputs(b, c, E, wdir, None, with_inv), wit0, key="C09:exception")
    if not ok:
        return
    ks = list(range(1, nd)) if c.get("allk") else [int(k) for k in c["ks"]]
    inv_ks = set(ks[:1])
    if with_inv and np.isfinite(base["dis_dir"][0]):
        # seam-targeted rotations: put the dissipation-weighted direction of the first point just below and
        # just above 0/360, so that the seam lies between it and the stress direction in one of the two
        kstar = int(np.round((360.0 - base["dis_dir"][0]) / step)) % nd
        for kk in (kstar, (kstar - 1) % nd, (kstar + 1) % nd):
            if kk != 0:
                inv_ks.add(kk)
                if kk not in ks:
                    ks.append(kk)
    for k in ks:
        ctx.case((c["kind"], nd, pair, "rot"), nontrivial=k % nd != 0, sample={"kind": c["kind"], "N": nd, "k": k, "pair": pair})
        wit = lambda: {"gen": c, "k": k}  # noqa
        inv_here = with_inv and (k in inv_ks)
        b0 = dict(base)
        if not inv_here:
            b0.pop("inv_u10", None)
            b0.pop("invit_u10", None)
        ok, other = guarded(ctx, "C09.no-exception",
                            lambda: outputs(b, c, np.roll(E, k, axis=-1), wdir + k * step, base["z_used"], inv_here), wit,
                            key="C09:exception")
        if ok:
            compare(ctx, "rot", b0, other, lambda a: np.roll(a, k, axis=-1) if a.ndim == 3 else a, k * step, 1.0, wit, pair,
                    rescue=make_rescue(b, c, E, wl.build(c, np.roll(E, k, axis=-1))) if inv_here else None,
                    zsolve=make_zsolve(b, c, E, wdir, np.roll(E, k, axis=-1), wdir + k * step))
    if with_inv:
        # the inversion (with and without direction iteration) under EVERY rotation: the place where the seam falls
        # relative to the dissipation and stress directions differs from rotation to rotation
        from ocean_science_utilities.wavephysics.windestimate import estimate_u10_from_source_terms
        for k in range(1, nd):
            if k in inv_ks:
                continue
            sk = wl.build(c, np.roll(E, k, axis=-1))
            wit = lambda: {"gen": c, "k": k, "inversion_only": True}  # noqa
            ok, pair_ = guarded(ctx, "C09.no-exception",
                                lambda: (estimate_u10_from_source_terms(sk, b),
                                         estimate_u10_from_source_terms(sk, b, direction_iteration=True)), wit,
                                key="C09:exception")
            if not ok:
                continue
            other = {"inv_u10": np.asarray(pair_[0]["u10"].values, float), "inv_dir": np.asarray(pair_[0]["direction"].values, float),
                     "invit_u10": np.asarray(pair_[1]["u10"].values, float), "invit_dir": np.asarray(pair_[1]["direction"].values, float)}
            ctx.count("C09.inversion_rotations")
            compare_inversion(ctx, "rot", base, other, k * step, 1.0, wit, rescue=make_rescue(b, c, E, sk))
    # rotation by an arbitrary angle, expressed by relabelling the direction axis (same numbers, coordinates and wind
    # direction shifted by phi - not a multiple of the bin width): fields unchanged bin by bin, directions + phi.
    # The same source-term objects have just been used on the unrotated grid.
    phi = float(c.get("phi", 13.7))
    c_rel = dict(c)
    c_rel["dir"] = (np.asarray(c["dir"], float) + phi) % 360.0
    ctx.case((c["kind"], nd, pair, "relabel"), nontrivial=True, sample={"kind": c["kind"], "N": nd, "phi": phi, "pair": pair})
    wit = lambda: {"gen": c, "relabel": True}  # noqa
    b0 = dict(base)
    b0.pop("inv_u10", None)
    b0.pop("invit_u10", None)
    ok, other = guarded(ctx, "C09.no-exception", lambda: outputs(b, c_rel, E, wdir + phi, base["z_used"], False), wit,
                        key="C09:exception")
    if ok:
        ctx.count("C09.rotations_by_relabelling_the_axis")
        compare(ctx, "rot", b0, other, lambda a: a, phi, 1.0, wit, pair,
                zsolve=make_zsolve(b, c, E, wdir, E, wdir + phi, c_other=c_rel))
    idx = (-np.arange(nd)) % nd
    ctx.case((c["kind"], nd, pair, "mirror"), nontrivial=True)
    wit = lambda: {"gen": c, "mirror": True}  # noqa
    b0 = dict(base)
    # the inversion (with and without direction iteration) of the mirror image too: U10 equal, direction negated
    ok, other = guarded(ctx, "C09.no-exception", lambda: outputs(b, c, E[..., idx], -wdir, base["z_used"], with_inv), wit,
                        key="C09:exception")
    if ok:
        compare(ctx, "mirror", b0, other, lambda a: a[..., idx] if a.ndim == 3 else a, 0.0, -1.0, wit, pair,
                rescue=make_rescue(b, c, E, wl.build(c, E[..., idx])) if with_inv else None,
                zsolve=make_zsolve(b, c, E, wdir, E[..., idx], -wdir))


def make(rng, i, allk):
    pair = ["st4/st4", "st4/st6", "st4/st4"][i % 3]
    nd = [16, 24, 36][(i // 3) % 3] if i < 9 else int(rng.choice([16, 24, 36]))
    c = wl.make_case(rng, kind=str(rng.choice(["windsea", "veering", "veering", "mixed", "random"])), nd=nd,
                     npoints=int(rng.integers(1, 4)))
    if rng.uniform() < 0.3:
        # a spectrum that was zero-filled onto a wider frequency grid: no energy in the highest bins (the diagnostic
        # tail above the last bin then carries nothing; only the background stress remains)
        E_ = np.array(c["E"], dtype=float)
        E_[:, -int(rng.integers(1, 4)):, :] = 0.0
        c["E"] = E_
        c["kind"] = c["kind"] + "+zero-top-bins"
    # non-default generation parameters for a third of the cases (a viscous stress contribution, which ST4 switches
    # off by default, adds a vector along the wind to the stress)
    gp = [None, None, {"viscous_stress_parameter": 0.04}, {"charnock_constant": 0.015, "viscous_stress_parameter": 0.1}][int(rng.integers(0, 4))]
    # non-default dissipation parameters for a third of the ST4 cases (directional control of the saturation term)
    dp = None
    if pair.endswith("/st4") and rng.uniform() < 0.35:
        dp = {"saturation_breaking_directional_control": float(rng.choice([0.3, 0.6, 1.0]))}
    c.update({"pair": pair, "gen_params": gp, "dis_params": dp, "ks": [int(k) for k in rng.integers(1, nd, 3)],
              "phi": float(rng.uniform(1.0, 359.0)),
              "allk": allk, "inversion": bool(c["kind"].split("+")[0] in ("windsea", "mixed", "veering") and i % 2 == 0)})
    return c


def run_shard(ctx, shard):
    rng = ctx.rng()
    for i in range(shard["n"]):
        judge(ctx, make(rng, i + 3 * shard.get("index", 0), shard["allk"]))


def replay(ctx, case):
    g = dict(case["gen"])
    if "k" in case:
        g["allk"] = False
        g["ks"] = [int(case["k"])]
    judge(ctx, g)
