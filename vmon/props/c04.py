"""C04 - peak parameters locate the maximum of e(f) inside the requested band."""
from __future__ import annotations

import numpy as np

from ..core import guarded
from ..gens import spectra as gs
from ..monitors import spectrum as ms
from ..monitors import history as hist
from ..oracles import spectral as osp
from .c01 import bands

PROPERTY = "C04"
LEVEL = "exploration"
RULE = ("1D/2D spectra with hostile peak structure: multi-peaked, exact plateaus/ties (incl. tie between "
        "first and last bin), peak at first/last bin, global peak outside the band, NaN bins, batches whose "
        "members peak at different bins and have different depths (finite/inf/NaN), all layouts incl. (); "
        "every band kind. Postconditions on peak_index/peak_frequency/peak_period/peak_direction/"
        "peak_directional_spread/peak_wavenumber recompute the first in-band argmax by explicit loop; each "
        "batch element is also compared with the same call on that element alone. distinct = descriptor + "
        "peak-structure kind + band kind; non-trivial = in-band maximum > 0.")
ASSUMPTIONS = ["a band whose in-band maximum is <= 0 (or empty) has no defined peak and is not judged",
               "peak_wavenumber is skipped for a peak at f=0"]
REQUIRED_MONITORS = ["C04.peak_index==first-argmax-in-band", "C04.peak_frequency==f[peak]",
                     "C04.peak_period==1/f[peak]", "C04.peak_wavenumber:dispersion<=1e-3",
                     "C04.peak_direction==per-frequency[peak]", "C04.peak_spread==per-frequency[peak]",
                     "C04.batch==single"]
REQUIRED_REACH = ["spectrum.py:WaveSpectrum.peak_index", "spectrum.py:WaveSpectrum.peak_wavenumber"]
REQUIRED_COUNTERS = {"C04.read-modify-read_sequences": 5, "C04.ties": 5, "C04.peak_outside_band": 5, "C04.scalar_layout_wavenumber": 1}
TIMEOUT = {"quick": 600, "thorough": 3000}
N = {"quick": (8, 30), "thorough": (16, 250)}


def plan(tier, seed):
    ns, per = N[tier]
    shards = [{"n": per} for _ in range(ns)]
    if tier == "thorough":
        shards.append({"repo_tests": True, "n": 0, "allk": False})
    return shards


def shape_peaks(rng, c):
    """overwrite the energy with a hostile peak structure (works on 1D e or 2D E)"""
    kind = str(rng.choice(["multi", "plateau", "tie-first-last", "first", "last", "per-point", "as-is", "nan-bins"]))
    E = np.array(c["E"], dtype=float)
    twoD = c["kind"] == "2d"
    nf = len(c["freq"])
    e = E.sum(axis=-1) if twoD else E  # only used for scaling
    lead = e.shape[:-1]
    if kind == "as-is" or nf < 2:
        return "as-is", c
    prof = rng.uniform(0.0, 1.0, lead + (nf,))
    top = 2.0
    if kind == "plateau":
        i0 = int(rng.integers(0, nf - 1))
        i1 = int(rng.integers(i0 + 1, nf))
        prof[..., i0:i1 + 1] = top
    elif kind == "tie-first-last":
        prof[..., 0] = top
        prof[..., -1] = top
    elif kind == "first":
        prof[..., 0] = top
    elif kind == "last":
        prof[..., -1] = top
    elif kind == "multi":
        for _ in range(3):
            prof[..., int(rng.integers(0, nf))] = top * rng.choice([1.0, 1.0, 0.5])
    elif kind == "per-point":
        idx = rng.integers(0, nf, lead)
        np.put_along_axis(prof, np.asarray(idx)[..., None], top, axis=-1)
    elif kind == "nan-bins":
        prof[..., int(rng.integers(0, nf))] = top
        prof = np.where(rng.uniform(0, 1, prof.shape) > 0.8, np.nan, prof)
        if np.all(np.isnan(prof), axis=-1).any():
            prof[..., 0] = 0.5
    if twoD:
        nd = E.shape[-1]
        # exact ties need identical directional sums: use the same directional shape per spectrum
        D = rng.uniform(0.1, 1.0, lead + (1, nd))
        if kind == "nan-bins":
            prof = np.where(np.isnan(prof), 0.0, prof)
        E = prof[..., None] * D
    else:
        E = prof
    c = dict(c)
    c["E"] = E
    c["ekind"] = kind
    return kind, c


def single_point_cases(c):
    """yield (index tuple, scalar-layout case) for every batch member"""
    E = np.asarray(c["E"])
    nspec = 1 if c["kind"] == "1d" else 2
    lead = E.shape[:-nspec]
    for idx in np.ndindex(*lead):
        s = dict(c)
        s["layout"] = "scalar"
        s["E"] = E[idx]
        for n in ("a1", "b1", "a2", "b2"):
            if n in c:
                s[n] = np.asarray(c[n])[idx]
        s["depth"] = np.atleast_1d(np.asarray(c["depth"])[idx])
        s["lon"] = np.atleast_1d(np.asarray(c["lon"])[idx] if np.asarray(c["lon"]).shape == lead else np.asarray(c["lon"]).ravel()[0])
        s["lat"] = np.atleast_1d(np.asarray(c["lat"]).ravel()[0])
        s["time"] = np.atleast_1d(np.asarray(c["time"]).ravel()[0])
        yield idx, s


def judge(ctx, c, rng):
    ms.install(ctx)
    s = gs.build(c)
    f = c["freq"]
    E = np.asarray(c["E"], float)
    # e(f) from the raw arrays (bin widths: 360/N on uniform grids, else the object's direction_step)
    e = np.asarray(ms.oracle_e(s), float).reshape(E.shape[:-1] if c["kind"] == "2d" else E.shape)
    lead = e.shape[:-1]
    for bkind, fmin, fmax in bands(rng, f):
        idx, mx = osp.first_argmax_in_band(e, f, fmin, fmax)
        gidx, gmx = osp.first_argmax_in_band(e, f, 0, np.inf)
        judged = (idx >= 0) & (mx > 0)
        if np.any(judged & (gidx != idx)):
            ctx.count("C04.peak_outside_band")
        # count ties
        mask = osp.band_mask(f, fmin, fmax)
        if judged.any():
            eb = np.where(mask, np.where(np.isnan(e), -np.inf, e), -np.inf)
            ties = (eb == np.max(eb, axis=-1, keepdims=True)).sum(axis=-1)
            if np.any(ties[judged] > 1):
                ctx.count("C04.ties")
        ctx.case(gs.descriptor(c) + (bkind,), nontrivial=bool(judged.any()),
                 sample={"kind": c["kind"], "layout": c["layout"], "peaks": c["ekind"], "band": [fmin, fmax],
                         "expected_index": idx})
        wit = lambda: {"gen": c, "band": [fmin, fmax]}  # noqa
        res = {}
        for name in ("peak_index", "peak_frequency", "peak_period", "peak_direction", "peak_directional_spread"):
            ok, v = guarded(ctx, "C04.no-exception", lambda: getattr(s, name)(fmin, fmax), wit,
                            key=f"C04:{name}:exception")
            if ok:
                res[name] = np.asarray(getattr(v, "values", v))
        # peak direction / spread are the per-frequency values at the (oracle) peak index
        if "peak_direction" in res and "peak_directional_spread" in res:
            okd, dpf = guarded(ctx, "C04.no-exception", lambda: s.mean_direction_per_frequency.values, wit)
            oks, spf = guarded(ctx, "C04.no-exception", lambda: s.mean_spread_per_frequency.values, wit)
            flat = c["layout"] == "flat"
            idx_r = idx.reshape(-1) if flat else idx
            judged_r = judged.reshape(-1) if flat else judged
            if okd and oks and res["peak_direction"].shape == idx_r.shape:
                ii = np.maximum(idx_r, 0)[..., None]
                wd = np.take_along_axis(np.asarray(dpf, float), ii, axis=-1)[..., 0]
                wsp = np.take_along_axis(np.asarray(spf, float), ii, axis=-1)[..., 0]
                gd = np.asarray(res["peak_direction"], float)
                gsp = np.asarray(res["peak_directional_spread"], float)
                jd = judged_r & ~np.isnan(wd)
                ctx.check("C04.peak_direction==per-frequency[peak]",
                          bool(np.all(np.abs(osp.circ_diff(gd[jd], wd[jd])) <= 1e-9)), wit,
                          {"got": gd, "want": wd, "idx": idx}, key="C04:peak_direction")
                js = judged_r & ~np.isnan(wsp)
                ctx.check("C04.peak_spread==per-frequency[peak]",
                          bool(np.all(np.abs(gsp[js] - wsp[js]) <= 1e-9)), wit,
                          {"got": gsp, "want": wsp, "idx": idx}, key="C04:peak_spread")
            elif okd and oks:
                ctx.check("C04.peak_direction==per-frequency[peak]", False, wit,
                          {"shape": res["peak_direction"].shape}, key="C04:peak_direction")
        # batch independence (flat layout: element j <-> unravel_index(j))
        if lead and bkind in ("default", "random") and len(res) == 5:
            for j, (ix, sc) in enumerate(single_point_cases(c)):
                s1 = gs.build(sc)
                pos = (j,) if c["layout"] == "flat" else ix
                for name in res:
                    ok, v = guarded(ctx, "C04.no-exception", lambda: getattr(s1, name)(fmin, fmax), wit,
                                    key=f"C04:{name}:exception")
                    if not ok:
                        continue
                    a = np.asarray(getattr(v, "values", v), float)
                    b = np.asarray(res[name][pos], float)
                    if not judged[ix]:
                        continue
                    same = (a.shape == b.shape) and bool(np.allclose(a, b, rtol=1e-12, atol=1e-12, equal_nan=True))
                    ctx.check("C04.batch==single", same, lambda: {"gen": c, "band": [fmin, fmax], "point": list(ix), "name": name},
                              {"single": a, "batch": b, "name": name}, key=f"C04:batch:{name}")
    # derived peak quantities (default band)
    ok_f, fpk = guarded(ctx, "C04.no-exception", lambda: s.peak_frequency(), lambda: {"gen": c}, key="C04:peak_frequency:exception")
    ok_w, wpk = guarded(ctx, "C04.no-exception", lambda: s.peak_angular_frequency(), lambda: {"gen": c},
                        key="C04:peak_angular_frequency:exception")
    if ok_f and ok_w:
        ctx.close("C04.peak_angular_frequency==2pi*fp", np.asarray(wpk.values, float), 2 * np.pi * np.asarray(fpk.values, float),
                  atol=0, rtol=1e-14, case=lambda: {"gen": c}, key="C04:peak_angular_frequency")
    ok_k, kpk = guarded(ctx, "C04.no-exception", lambda: s.peak_wavenumber, lambda: {"gen": c}, key="C04:peak_wavenumber:exception")
    ok_c, cpk = guarded(ctx, "C04.no-exception", lambda: s.peak_wave_speed(), lambda: {"gen": c}, key="C04:peak_wave_speed:exception")
    if ok_f and ok_k and ok_c:
        fv, kv = np.asarray(fpk.values, float), np.asarray(kpk.values, float)
        okp = (fv > 0) & np.isfinite(kv) & (kv > 0)
        with np.errstate(divide="ignore", invalid="ignore"):
            wantc = 2 * np.pi * fv / kv
        gotc = np.asarray(cpk.values, float)
        if gotc.shape == wantc.shape:
            ctx.close("C04.peak_wave_speed==2pi*fp/kp", gotc[okp], wantc[okp], atol=0, rtol=1e-12, case=lambda: {"gen": c},
                      key="C04:peak_wave_speed")
            U = 11.0
            ok_a, age = guarded(ctx, "C04.no-exception", lambda: s.wave_age(U), lambda: {"gen": c}, key="C04:wave_age:exception")
            if ok_a:
                ctx.close("C04.wave_age==cp/U", np.asarray(age.values, float)[okp], wantc[okp] / U, atol=0, rtol=1e-12,
                          case=lambda: {"gen": c}, key="C04:wave_age")
        else:
            ctx.check("C04.peak_wave_speed==2pi*fp/kp", False, lambda: {"gen": c}, {"shape": gotc.shape}, key="C04:peak_wave_speed")
    ok, k = guarded(ctx, "C04.no-exception", lambda: s.peak_wavenumber, lambda: {"gen": c},
                    key="C04:peak_wavenumber:exception")
    if c["layout"] == "scalar":
        ctx.count("C04.scalar_layout_wavenumber")
    if ok and lead:
        kk = np.asarray(k.values, float)
        _, mx0 = osp.first_argmax_in_band(e, f, 0, np.inf)
        for j, (ix, sc) in enumerate(single_point_cases(c)):
            if not (mx0[ix] > 0):
                continue
            s1 = gs.build(sc)
            ok1, k1 = guarded(ctx, "C04.no-exception", lambda: s1.peak_wavenumber, lambda: {"gen": sc},
                              key="C04:peak_wavenumber:exception")
            if ok1:
                pos = (j,) if c["layout"] == "flat" else ix
                a = float(np.asarray(k1.values).ravel()[0])
                b = float(kk[pos])
                # both satisfy the dispersion relation to 1e-3 => agree to ~2e-3 relative (iteration count
                # is per call, so bitwise equality is not required)
                ctx.check("C04.batch==single", abs(a - b) <= 4e-3 * abs(a) or (np.isnan(a) and np.isnan(b)),
                          lambda: {"gen": c, "point": list(ix)}, {"single": a, "batch": b, "name": "peak_wavenumber"},
                          key="C04:batch:peak_wavenumber")


def judge_sequence(ctx, c, rng):
    """query the peak, rescale the same object in place so that the peak moves, query again"""
    s = gs.build(c)
    f = c["freq"]
    nf = len(f)
    if nf < 3:
        return
    ctx.case(gs.descriptor(c) + ("read-modify-read",), nontrivial=True,
             sample={"kind": c["kind"], "layout": c["layout"], "sequence": "peak queries, multiply(inplace=True), peak queries"})
    wit = lambda: {"gen": c, "sequence": True}  # noqa
    band = (0.0, np.inf) if rng.uniform() < 0.5 else (float(f[1]), float(f[-1]))

    def read():
        for name in ("peak_index", "peak_frequency", "peak_period", "peak_direction", "peak_directional_spread"):
            guarded(ctx, "C04.no-exception", lambda: getattr(s, name)(*band), wit, key=f"C04:{name}:exception")
        guarded(ctx, "C04.no-exception", lambda: s.peak_wavenumber, wit, key="C04:peak_wavenumber:exception")
    read()
    # emphasise a different frequency
    j = int(rng.integers(0, nf))
    ramp = np.full(nf, 1e-3)
    ramp[j] = 1e3
    guarded(ctx, "C04.no-exception", lambda: s.multiply(ramp, ["frequency"], inplace=True), wit)
    ctx.count("C04.read-modify-read_sequences")
    read()
    guarded(ctx, "C04.no-exception", lambda: s.fillna(0.0), wit)
    read()


def history_io(c):
    reads = hist.reads_from(c, banded=("peak_index", "peak_frequency", "peak_period", "peak_angular_frequency", "peak_direction",
                                       "peak_directional_spread"),
                            plain=("peak_wavenumber",), calls=(("peak_wave_speed()", lambda s: s.peak_wave_speed()),))
    return reads, hist.spectrum_mods(c, with_depth=True)


def make_case(rng):
    if rng.uniform() < 0.5:
        c = gs.case_1d(rng, nf=int(rng.integers(1, 30)), depth_kind="mixed" if rng.uniform() < 0.6 else None,
                       allow_zero=bool(rng.uniform() < 0.3))
    else:
        c = gs.case_2d(rng, nf=int(rng.integers(1, 20)), nd=int(rng.choice([8, 12, 24, 36])),
                       depth_kind="mixed" if rng.uniform() < 0.6 else None, allow_zero=bool(rng.uniform() < 0.3))
    kind, c = shape_peaks(rng, c)
    return c


def run_shard(ctx, shard):
    if shard.get("repo_tests"):
        from ..core import run_repo_tests_under_contracts
        ms.install(ctx)
        run_repo_tests_under_contracts(ctx)
        return
    rng = ctx.rng()
    for i in range(shard["n"]):
        c = make_case(rng)
        c["_sub"] = int(rng.integers(0, 2 ** 62))
        judge(ctx, c, np.random.default_rng(c["_sub"]))
        if i % 3 == 0:
            judge_sequence(ctx, c, np.random.default_rng(c["_sub"] + 1))
        if i % 2 == 1 and len(c["freq"]) >= 3:
            hist.judge_history(ctx, "C04", c, np.random.default_rng(c["_sub"] + 2), *history_io(c))


def replay(ctx, case):
    ms.install(ctx)
    if "method" in case:
        ms.call_case(case)
    else:
        g = case["gen"]
        if "history" in case:
            hist.run_history(ctx, "C04", g, case["history"], *history_io(g))
        elif case.get("sequence"):
            judge_sequence(ctx, g, np.random.default_rng(int(g["_sub"]) + 1))
        else:
            judge(ctx, g, np.random.default_rng(int(g["_sub"])))
