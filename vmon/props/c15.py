"""C15 - spectrum objects: no aliasing or mutation of operands; restructuring round-trips."""
from __future__ import annotations

import copy
import os

import numpy as np

from ..core import guarded
from ..gens import spectra as gs

PROPERTY = "C15"
LEVEL = "exploration"
RULE = ("history workload: a pool of 1D and 2D spectra (layouts scalar/time/time_lat, with NaN bins, NaN/inf "
        "depths); each step applies one public operation (+ - neg multiply bandpass sel isel [] mean sum std flatten "
        "copy deepcopy where drop_invalid as_frequency_spectrum as_frequency_direction_spectrum interpolate "
        "interpolate_frequency(linear/nearest/spline) extrapolate_tail down_sample differentiate concatenate "
        "save/load bulk accessors) to random pool members (sequences of length <= 6) and the bytes, dtype, dims "
        "and shape of every variable of every pool member are compared before/after - also when the operation "
        "raises; deep copies are overwritten to prove independence; concatenate N in 1..6 then select every i by "
        "isel/sel/[]; flatten pairing; netCDF round trips incl. NaN and infinite depth. distinct = (operation, "
        "class, layout, NaN?) ; non-trivial = operation executed on a spectrum with >= 2 frequencies.")
ASSUMPTIONS = ["operations documented as in-place (fillna, multiply(inplace=True)) are not part of the workload",
               "read-only index buffers shared between a copy and its source are not 'shared data' (they cannot be written)"]
REQUIRED_MONITORS = ["C15.operands-unchanged", "C15.result-is-new-object", "C15.deepcopy-independent",
                     "C15.concat-select==input", "C15.flatten-pairing", "C15.netcdf-roundtrip", "C15.copy-equal"]
REQUIRED_REACH = ["spectrum.py:WaveSpectrum.__add__", "spectrum.py:WaveSpectrum.multiply", "spectrum.py:WaveSpectrum.flatten",
                  "spectrum.py:DatasetWrapper.__deepcopy__", "operations.py:concatenate_spectra",
                  "spectrum.py:load_spectrum_from_netcdf", "spectrum.py:WaveSpectrum.__getitem__",
                  "spectrum.py:FrequencySpectrum.interpolate_frequency", "spectrum.py:WaveSpectrum.bandpass"]
REQUIRED_COUNTERS = {"C15.inplace_ops_on_derived_spectra": 2, "C15.ops_executed": 100, "C15.ops_on_spectra_with_nan": 10, "C15.op:interpolate_frequency:spline": 1}
TIMEOUT = {"quick": 900, "thorough": 3600}
N = {"quick": (8, 60), "thorough": (16, 2400)}


def plan(tier, seed):
    ns, per = N[tier]
    return [{"n": per} for _ in range(ns)]


# ------------------------------------------------------------------ snapshots
def snapshot(obj):
    ds = obj.dataset
    out = {}
    for name in ds.variables:
        v = ds[name]
        arr = np.asarray(v.values)
        out[str(name)] = (str(arr.dtype), tuple(v.dims), arr.shape, arr.tobytes())
    return out


def diff_snapshot(a, b):
    if a.keys() != b.keys():
        return {"variables": [sorted(a), sorted(b)]}
    for k in a:
        if a[k] != b[k]:
            which = [n for n, (x, y) in zip(("dtype", "dims", "shape", "bytes"), zip(a[k], b[k])) if x != y]
            return {"variable": k, "changed": which}
    return None


# ------------------------------------------------------------------ operations
def ops_for(s, rng, pool, work):
    """list of (name, thunk, operands) applicable to s"""
    from ocean_science_utilities.wavespectra.operations import concatenate_spectra
    from ocean_science_utilities.wavespectra.spectrum import load_spectrum_from_netcdf
    is2d = "direction" in s.dims
    f = np.asarray(s.frequency.values, float)
    lead = s.dims_space_time
    ops = []
    same = [p for p in pool if type(p) is type(s) and p.shape() == s.shape() and p is not s
            and np.array_equal(p.frequency.values, f)]
    if same:
        o = same[int(rng.integers(0, len(same)))]
        ops.append(("add", lambda: s + o, [s, o]))
        ops.append(("sub", lambda: s - o, [s, o]))
    ops.append(("add-self", lambda: s + s, [s]))
    ops.append(("neg", lambda: -s, [s]))
    arr = rng.uniform(0.5, 2, s.shape())
    ops.append(("multiply", lambda: s.multiply(arr), [s]))
    af = rng.uniform(0.5, 2, len(f))
    ops.append(("multiply-dims", lambda: s.multiply(af, ["frequency"]), [s]))
    # documented in-place operations may change `self` - and nothing else: a spectrum obtained by selection /
    # indexing / flattening from another one must not drag its parent along
    ops.append(("multiply-inplace", lambda: s.multiply(arr, inplace=True), [s]))
    ops.append(("fillna-inplace", lambda: s.fillna(0.0), [s]))
    lo, hi = sorted(rng.uniform(f[0], f[-1], 2)) if len(f) > 1 else (0.0, 1.0)
    ops.append(("bandpass", lambda: s.bandpass(float(lo), float(hi)), [s]))
    if "time" in lead:
        nt = len(s.dataset["time"])
        i = int(rng.integers(0, nt))
        ops.append(("isel", lambda: s.isel(time=i), [s]))
        tv = s.dataset["time"].values
        if nt == 1 or np.all(np.diff(tv.astype("int64")) > 0):
            ops.append(("sel", lambda: s.sel({"time": tv[i]}), [s]))
        ops.append(("mean", lambda: s.mean("time"), [s]))
        ops.append(("mean-skipna", lambda: s.mean("time", skipna=True), [s]))
        ops.append(("sum", lambda: s.sum("time"), [s]))
        ops.append(("std", lambda: s.std("time"), [s]))
        ops.append(("interpolate-time", lambda: s.interpolate({"time": tv[:1]}), [s]))
        if is2d and nt >= 2:
            ops.append(("differentiate", lambda: s.differentiate(), [s]))
    if lead:
        idx = tuple(int(rng.integers(0, n)) for n in s.space_time_shape()) + (slice(None),) * len(s.dims_spectral)
        ops.append(("getitem", lambda: s[idx], [s]))
        cond = s.hm0() > float(np.nanmedian(s.hm0().values))
        ops.append(("where", lambda: s.where(cond), [s]))
        ops.append(("drop_invalid", lambda: s.drop_invalid(), [s]))
    ops.append(("flatten", lambda: s.flatten(), [s]))
    ops.append(("copy", lambda: s.copy(), [s]))
    ops.append(("copy-shallow", lambda: s.copy(deep=False), [s]))
    ops.append(("deepcopy", lambda: copy.deepcopy(s), [s]))
    nf2 = np.sort(rng.uniform(f[0] - 0.01, f[-1] + 0.01, int(rng.integers(2, 9))))
    ops.append(("interpolate_frequency", lambda: s.interpolate_frequency(nf2), [s]))
    if is2d:
        ops.append(("as_frequency_spectrum", lambda: s.as_frequency_spectrum(), [s]))
    else:
        ops.append(("interpolate_frequency:nearest", lambda: s.interpolate_frequency(nf2, method="nearest"), [s]))
        ops.append(("interpolate_frequency:spline", lambda: s.interpolate_frequency(nf2, method="spline"), [s]))
        ops.append(("interpolate_frequency:spline-nomono",
                    lambda: s.interpolate_frequency(nf2, method="spline", monotone_interpolation=False), [s]))
        ops.append(("as_frequency_direction_spectrum",
                    lambda: s.as_frequency_direction_spectrum(int(rng.choice([8, 12])), method="mem"), [s]))
        ops.append(("extrapolate_tail", lambda: s.extrapolate_tail(float(f[-1] * 1.5)), [s]))
        if len(f) > 4:
            ops.append(("down_sample", lambda: s.down_sample(f[1:-1:2]), [s]))
    ops.append(("bulk-accessors", lambda: (s.hm0(), s.tm01(), s.peak_frequency(), s.peak_direction(), s.mean_direction(),
                                           s.wavenumber, s.group_velocity, s.cdf(), s.bulk_variables()) and None, [s]))
    if same:
        o = same[int(rng.integers(0, len(same)))]
        ops.append(("concatenate-none", lambda: concatenate_spectra([s, o]), [s, o]))
    path = os.path.join(work, f"rt_{int(rng.integers(0, 10 ** 9))}.nc")

    def saveload():
        s.save_as_netcdf(path)
        try:
            r = load_spectrum_from_netcdf(path)
            r.dataset.load()
            r.dataset.close()
            return r
        finally:
            if os.path.exists(path):
                os.remove(path)
    ops.append(("save-load", saveload, [s]))
    return ops


def history(ctx, c, work):
    rng = np.random.default_rng(int(c["sub"]))
    pool = [gs.build(g) for g in c["members"]]
    has_nan = [bool(np.isnan(np.asarray(g["E"], float)).any()) for g in c["members"]]
    nanflag = {id(p): h for p, h in zip(pool, has_nan)}
    derived = {}  # id -> True for members that were produced from another pool member
    steps = int(c["steps"])
    for step in range(steps):
        s = pool[int(rng.integers(0, len(pool)))]
        ops = ops_for(s, rng, pool, work)
        name, thunk, operands = ops[int(rng.integers(0, len(ops)))]
        if c.get("force") and step == 0:
            forced = [o for o in ops if o[0] == c["force"]]
            if forced:
                name, thunk, operands = forced[0]
        before = [snapshot(p) for p in pool]
        err = None
        try:
            result = thunk()
        except Exception as e:  # the operation may legitimately be unsupported; operands must still be intact
            result = None
            err = repr(e)[:200]
        ctx.count("C15.ops_executed")
        ctx.count(f"C15.op:{name}")
        if err:
            ctx.count(f"C15.op-raised:{name}")
        if nanflag.get(id(s)):
            ctx.count("C15.ops_on_spectra_with_nan")
        layout = c["layout"]
        ctx.case((name, type(s).__name__, layout, bool(nanflag.get(id(s)))), nontrivial=len(s.frequency) >= 2,
                 sample={"op": name, "class": type(s).__name__, "dims": s.dims, "step": step})
        wit = lambda: {"hist": c, "step": step, "op": name}  # noqa
        for k, p in enumerate(pool):
            if name.endswith("-inplace") and p is s:
                continue  # self may change (documented); every other pool member must not
            d = diff_snapshot(before[k], snapshot(p))
            if not ctx.check("C15.operands-unchanged", d is None, wit,
                             {"op": name, "pool_member": k, "is_operand": any(p is o for o in operands), "diff": d,
                              "raised": err}, key=f"C15:mutated:{name}"):
                # restore the pool so later steps are judged on their own
                pool[k] = gs.build(c["members"][k]) if k < len(c["members"]) else p
        if name.endswith("-inplace"):
            ctx.count("C15.inplace_ops_on_derived_spectra" if derived.get(id(s)) else "C15.inplace_ops_on_root_spectra")
            # the mutated member no longer matches its generator case: rebuild it for the steps that follow
            continue
        if result is not None and hasattr(result, "dataset"):
            fresh = all(result is not o and result.dataset is not o.dataset for o in operands)
            ctx.check("C15.result-is-new-object", fresh, wit, {"op": name}, key=f"C15:not-new:{name}")
            if name in ("copy", "deepcopy", "copy-shallow"):
                same = diff_snapshot(snapshot(s), snapshot(result)) is None and type(result) is type(s)
                ctx.check("C15.copy-equal", same, wit, {"op": name}, key=f"C15:copy-equal:{name}")
            if name in ("copy", "deepcopy"):
                judge_deepcopy(ctx, s, result, wit, name)
                continue  # the overwritten copy is not added to the pool
            if name == "flatten":
                judge_flatten(ctx, s, result, wit)
            if name == "save-load":
                judge_netcdf(ctx, s, result, wit)
            usable = False
            try:
                usable = len(result.frequency) >= 2 and all(n > 0 for n in result.shape())
            except Exception:
                usable = False
            if len(pool) < 8 and usable:
                nanflag[id(result)] = bool(np.isnan(result.variance_density.values).any())
                derived[id(result)] = True
                pool.append(result)


def judge_deepcopy(ctx, src, cp, wit, name):
    """overwrite every writable array of the copy and require the source unchanged"""
    before = snapshot(src)
    wrote = 0
    for vname in list(cp.dataset.variables):
        arr = cp.dataset[vname].values
        if isinstance(arr, np.ndarray) and arr.flags.writeable and arr.size:
            try:
                if arr.dtype.kind == "f":
                    arr[...] = -12345.0
                elif arr.dtype.kind == "M":
                    arr[...] = np.datetime64(0, "ns")
                else:
                    continue
                wrote += 1
            except (ValueError, TypeError):
                continue
    d = diff_snapshot(before, snapshot(src))
    ctx.count("C15.deepcopy_arrays_overwritten", wrote)
    ctx.check("C15.deepcopy-independent", d is None, wit, {"op": name, "diff": d, "arrays_overwritten": wrote},
              key=f"C15:deepcopy-shares:{name}")


def judge_flatten(ctx, s, fl, wit):
    shape = s.space_time_shape()
    n = int(np.prod(shape)) if len(shape) else 1
    ok = fl.number_of_spectra == n and fl.variance_density.shape[0] == n
    vd, fvd = np.asarray(s.variance_density.values), np.asarray(fl.variance_density.values)
    names = [v for v in ("latitude", "longitude", "depth", "time") if v in s.dataset.variables]
    for j in range(n):
        idx = np.unravel_index(j, shape) if len(shape) else ()
        ok = ok and np.array_equal(fvd[j], vd[idx], equal_nan=True)
        for v in names:
            a = s.dataset[v]
            if v in s.dims_space_time:
                val = a.values[idx[s.dims_space_time.index(v)]]
            elif a.ndim == 0:
                val = a.values
            else:
                # variable defined over (a subset of) the space/time dims
                sub = tuple(idx[s.dims_space_time.index(d)] for d in a.dims)
                val = a.values[sub]
            got = fl.dataset[v].values[j]
            same = (val == got) or (np.asarray(val).dtype.kind == "f" and np.isnan(val) and np.isnan(got))
            ok = ok and bool(same)
    ctx.check("C15.flatten-pairing", bool(ok), wit, {"n": n}, key="C15:flatten")


def judge_netcdf(ctx, s, r, wit):
    ok = type(r) is type(s)
    a, b = snapshot(s), snapshot(r)
    detail = None
    if a.keys() != b.keys():
        ok = False
        detail = {"variables": [sorted(a), sorted(b)]}
    else:
        for k in a:
            va, vb = s.dataset[k].values, r.dataset[k].values
            if va.dtype.kind == "f":
                same = va.shape == vb.shape and np.array_equal(va, vb, equal_nan=True) and a[k][1] == b[k][1]
            elif va.dtype.kind == "M":
                same = va.shape == vb.shape and np.array_equal(va.astype("datetime64[ns]"), vb.astype("datetime64[ns]")) and a[k][1] == b[k][1]
            else:
                # integers: the netCDF-3 writer used when netCDF4 is absent stores int64 as int32 (values unchanged,
                # it refuses values that do not fit); "identical coordinates and values" is judged on dims and values
                same = a[k][1:3] == b[k][1:3] and np.array_equal(va, vb)
                if va.dtype != vb.dtype:
                    ctx.count(f"C15.netcdf_integer_width_changed({va.dtype}->{vb.dtype})")
            if not same:
                ok = False
                detail = {"variable": k, "saved": [str(va.dtype), list(s.dataset[k].dims), va.reshape(-1)[:6]],
                          "loaded": [str(vb.dtype), list(r.dataset[k].dims), vb.reshape(-1)[:6]]}
                break
    ctx.check("C15.netcdf-roundtrip", bool(ok), wit, detail, key="C15:netcdf")


# ------------------------------------------------------------------ concatenation
def gridded_spectrum(g):
    """a (latitude x longitude) gridded spectrum whose position lives in the coordinates; members picked from it with
    isel carry their position as scalar coordinates (and time/depth as scalar variables)"""
    import xarray
    from ocean_science_utilities.wavespectra.spectrum import FrequencyDirectionSpectrum, FrequencySpectrum
    space = ("latitude", "longitude")
    coords = {"latitude": np.asarray(g["lat"], float), "longitude": np.asarray(g["lon"], float),
              "frequency": np.asarray(g["freq"], float)}
    E = np.array(g["E"], dtype=float)
    if g["kind"] == "1d":
        dims = space + ("frequency",)
        variables = {"variance_density": (dims, E)}
        for k in ("a1", "b1", "a2", "b2"):
            variables[k] = (dims, np.array(g[k], dtype=float))
        cls = FrequencySpectrum
    else:
        dims = space + ("frequency", "direction")
        coords["direction"] = np.asarray(g["dir"], float)
        variables = {"variance_density": (dims, E)}
        cls = FrequencyDirectionSpectrum
    variables["time"] = (space, np.asarray(g["time"]).astype("int64").astype("datetime64[s]").astype("datetime64[ns]"))
    variables["depth"] = (space, np.array(g["depth"], dtype=float))
    return cls(xarray.Dataset(variables, coords=coords))


def concat_case(ctx, c):
    from ocean_science_utilities.wavespectra.operations import concatenate_spectra
    mode = c["mode"]
    if mode == "picked":
        grid = gridded_spectrum(c["grid"])
        members = [grid.isel(latitude=int(i), longitude=int(j)) for i, j in c["picks"]]
        kind_ = c["grid"]["kind"]
        mode = "time"
        ctx.count("C15.concatenations_of_members_picked_from_a_grid")
    else:
        members = [gs.build(g) for g in c["members"]]
        kind_ = c["members"][0]["kind"]
    n = len(members)
    ctx.case(("concat", c["mode"], members[0].__class__.__name__, n), nontrivial=n >= 2,
             sample={"mode": c["mode"], "n": n, "kind": kind_})
    wit = lambda: {"concat": c}  # noqa
    before = [snapshot(m) for m in members]
    if mode == "time":
        ok, cat = guarded(ctx, "C15.no-exception", lambda: concatenate_spectra(members, dim="time"), wit,
                          key="C15:exception:concat")
    else:
        ok, cat = guarded(ctx, "C15.no-exception", lambda: concatenate_spectra(members), wit, key="C15:exception:concat")
    for k, m in enumerate(members):
        ctx.check("C15.operands-unchanged", diff_snapshot(before[k], snapshot(m)) is None, wit, {"op": "concatenate"},
                  key="C15:mutated:concatenate")
    if not ok:
        return
    ctx.check("C15.result-is-new-object", all(cat is not m for m in members), wit, key="C15:not-new:concatenate")
    if mode == "time":
        selectors = [("isel", lambda i: cat.isel(time=i)),
                     ("getitem", lambda i: cat[(i,) + (slice(None),) * len(cat.dims_spectral)])]
        tv = cat.dataset["time"].values
        if n == 1 or np.all(np.diff(tv.astype("int64")) > 0):
            selectors.append(("sel", lambda i: cat.sel({"time": tv[i]})))
        for i, m in enumerate(members):
            for sname, sel in selectors:
                okk, got = guarded(ctx, "C15.no-exception", lambda: sel(i), wit, key=f"C15:exception:{sname}")
                if not okk:
                    continue
                same = True
                detail = None
                for v in ("variance_density", "a1", "b1", "a2", "b2", "time", "latitude", "longitude", "depth"):
                    if v not in m.dataset.variables:
                        continue
                    if v not in got.dataset.variables:
                        same, detail = False, {"missing": v}
                        break
                    a, b = np.asarray(m.dataset[v].values), np.asarray(got.dataset[v].values)
                    eq = a.shape == b.shape and (np.array_equal(a, b, equal_nan=True) if a.dtype.kind == "f"
                                                 else np.array_equal(a, b))
                    if not eq:
                        same, detail = False, {"variable": v, "i": i, "selector": sname, "input": a, "selected": b}
                        break
                ctx.check("C15.concat-select==input", bool(same), wit, detail, key=f"C15:concat:{sname}")
    else:
        # flattened join: element j of the result is the j-th spectrum of the flattened inputs, in order
        j = 0
        same = True
        detail = None
        for m in members:
            fl = m.flatten()
            for q in range(fl.number_of_spectra):
                for v in ("variance_density", "latitude", "longitude", "depth", "time"):
                    a = np.asarray(fl.dataset[v].values[q])
                    b = np.asarray(cat.dataset[v].values[j])
                    eq = np.array_equal(a, b, equal_nan=True) if a.dtype.kind == "f" else np.array_equal(a, b)
                    if not eq:
                        same, detail = False, {"variable": v, "j": j}
                j += 1
        same = same and cat.number_of_spectra == j
        ctx.check("C15.concat-select==input", bool(same), wit, detail, key="C15:concat:flat")


# ------------------------------------------------------------------ generation
def family(rng, kind, layout, k):
    base = (gs.case_1d if kind == "1d" else gs.case_2d)
    kw = dict(layout=layout, fkind=str(rng.choice(["uniform", "random"])), depth_kind="mixed", allow_zero=False)
    if kind == "1d":
        first = base(rng, nf=int(rng.integers(6, 16)), **kw)
    else:
        first = base(rng, nf=int(rng.integers(4, 10)), nd=int(rng.choice([8, 12])), dkind="uniform0", **kw)
    out = [first]
    for _ in range(k - 1):
        g = dict(first)
        E = np.asarray(first["E"]) * rng.uniform(0.2, 3, np.asarray(first["E"]).shape)
        g["E"] = E
        if kind == "1d":
            a1, b1, a2, b2 = gs.moments_in_disc(rng, E.shape)
            g.update({"a1": a1, "b1": b1, "a2": a2, "b2": b2})
        out.append(g)
    # measured moments scatter: some bins (slightly) outside the unit disc in some members
    if kind == "1d":
        for g in out:
            if rng.uniform() < 0.35:
                for pair in (("a1", "b1"), ("a2", "b2")):
                    a, b = np.array(g[pair[0]], dtype=float), np.array(g[pair[1]], dtype=float)
                    pick = rng.uniform(0, 1, a.shape) < 0.3
                    r = np.hypot(a, b)
                    fac = np.where(pick & (r > 0), rng.uniform(1.02, 1.3, a.shape) / np.where(r > 0, r, 1.0), 1.0)
                    g[pair[0]], g[pair[1]] = a * fac, b * fac
                g["mkind"] = "outside-unit-disc"
    # complete variance density but missing moments at some bins (a buoy that reports e(f) only there)
    if kind == "1d":
        for g in out:
            if rng.uniform() < 0.3:
                for nm in ("a1", "b1", "a2", "b2"):
                    a = np.array(g[nm], dtype=float)
                    a[rng.uniform(0, 1, a.shape) < 0.2] = np.nan
                    g[nm] = a
                g["mkind"] = str(g.get("mkind", "")) + "+nan-moments"
    # NaN bins in some members
    for g in out:
        if rng.uniform() < 0.4:
            E = np.array(g["E"], dtype=float)
            E[tuple(int(rng.integers(0, s)) for s in E.shape)] = np.nan
            g["E"] = E
            g["nankind"] = "single"
    return out


def gen_history(rng, force=None):
    kind = str(rng.choice(["1d", "2d"]))
    if force and force.startswith(("interpolate_frequency:", "as_frequency_direction", "extrapolate", "down_sample")):
        kind = "1d"
    layout = str(rng.choice(["scalar", "time", "time", "time_lat"]))
    members = family(rng, kind, layout, int(rng.integers(2, 4)))
    return {"mode": "history", "layout": layout, "members": members, "steps": int(rng.integers(1, 7)),
            "sub": int(rng.integers(0, 2 ** 62)), "force": force}


def gen_concat(rng):
    kind = str(rng.choice(["1d", "2d"]))
    mode = str(rng.choice(["time", "time", "flat"]))
    n = int(rng.integers(1, 7))
    if mode == "time":
        members = family(rng, kind, "scalar", n)
        t0 = int(rng.integers(0, 10 ** 9))
        times = t0 + np.cumsum(rng.integers(60, 7200, n))
        if rng.uniform() < 0.3:
            times = rng.permutation(times)
        for g, t in zip(members, times):
            g["time"] = np.array([int(t)], dtype="int64")
            g["lat"] = np.array([rng.uniform(-80, 80)])
            g["lon"] = np.array([rng.uniform(-180, 180)])
            g["depth"] = np.array([float(rng.choice([np.inf, np.nan, 10 ** rng.uniform(0, 3)]))])
    else:
        layout = str(rng.choice(["scalar", "time", "time_lat"]))
        members = family(rng, kind, layout, n)
    if rng.uniform() < 0.25:
        nla, nlo, nf = int(rng.integers(2, 4)), int(rng.integers(2, 4)), int(rng.integers(3, 8))
        g = {"kind": kind, "lat": np.sort(rng.uniform(-60, 60, nla)), "lon": np.sort(rng.uniform(-170, 170, nlo)),
             "freq": np.sort(rng.uniform(0.03, 0.6, nf)),
             "time": (int(rng.integers(0, 10 ** 9)) + rng.permutation(nla * nlo).reshape(nla, nlo) * 3600).astype("int64"),
             "depth": np.round(rng.uniform(5, 500, (nla, nlo)), 1)}
        if kind == "1d":
            g["E"] = rng.uniform(0, 2, (nla, nlo, nf))
            a1, b1, a2, b2 = gs.moments_in_disc(rng, (nla, nlo, nf))
            g.update({"a1": a1, "b1": b1, "a2": a2, "b2": b2})
        else:
            g["dir"] = np.arange(8) * 45.0
            g["E"] = rng.uniform(0, 2, (nla, nlo, nf, 8))
        cells = [(i, j) for i in range(nla) for j in range(nlo)]
        picks = [cells[k] for k in rng.permutation(len(cells))[:int(rng.integers(2, len(cells) + 1))]]
        return {"mode": "picked", "grid": g, "picks": picks}
    return {"mode": mode, "members": members}


FORCED = ["multiply-inplace", "interpolate_frequency:spline", "interpolate_frequency:nearest", "flatten", "deepcopy", "save-load", "copy",
          "getitem", "multiply", "add", "bandpass", "as_frequency_spectrum", "as_frequency_direction_spectrum"]


def run_shard(ctx, shard):
    rng = ctx.rng()
    work = os.environ.get("VERIF_WORK", "/verif/.work")
    for i in range(shard["n"]):
        if i % 3 == 2:
            concat_case(ctx, gen_concat(rng))
        else:
            force = FORCED[(i // 3 * 2 + i % 3 + shard.get("index", 0)) % len(FORCED)]
            history(ctx, gen_history(rng, force), work)


def replay(ctx, case):
    work = os.environ.get("VERIF_WORK", "/verif/.work")
    if "concat" in case:
        concat_case(ctx, case["concat"])
    else:
        history(ctx, case["hist"], work)
