"""C08 - source terms: sign, support, scaling; bulk rates integrate the spectral rates; batching."""
from __future__ import annotations

import warnings

import numpy as np

from ..core import guarded
from .. import wavelab as wl

PROPERTY = "C08"
LEVEL = "exploration"
RULE = ("JONSWAP wind seas (steepness 2-6 %), swell+sea mixtures, low swell and random non-negative spectra with zero "
        "bins; U10 1..40 m/s and friction-velocity input; wind directions exactly on bins, exactly between bins and "
        "arbitrary; finite and infinite depth; ST4 wind input (WAM tail stress), ST4 / ST6 dissipation, Romero on "
        "strictly positive spectra; batches of 1..8 points; default and non-default parameter sets; nd in {16,24,36}. "
        "Every public rate/bulk_rate/imbalance result is judged by postconditions composed from the raw inputs and "
        "other public results; batch of n vs n single-point calls, shuffled batches, and (thorough) NUMBA_NUM_THREADS "
        "in {1,4,16}. distinct = (spectrum kind, nd, pair, parameter set, input type); non-trivial = energy present "
        "in downwind bins.")
ASSUMPTIONS = ["bins within 1e-9 of perpendicular to the wind are not judged for the 'no downwind component' clause",
               "points for which the implicit roughness is NaN (allowed by C10) are evaluated with a supplied roughness"]
REQUIRED_MONITORS = ["C08.generation>=0", "C08.generation==0-where-E==0", "C08.generation==0-upwind",
                     "C08.generation:linear-in-E-at-fixed-roughness", "C08.dissipation<=0", "C08.dissipation==0-where-E==0",
                     "C08.dissipation:empty-spectrum==0", "C08.generation.bulk==integral(rate)",
                     "C08.dissipation.bulk==integral(rate)", "C08.imbalance==gen+diss-dEdt",
                     "C08.bulk-imbalance==gen+diss-m0(dEdt)", "C08.batch==single", "C08.batch:shuffle-equivariant", "C08.reused-object==fresh-object"]
REQUIRED_COUNTERS = {"C08.cases_on_a_reused_source_term_object": 3, "C08.pair:st4/st4": 3, "C08.pair:st4/st6": 3, "C08.pair:st4/romero": 1,
                     "C08.input:friction_velocity": 2, "C08.finite_depth_points": 3}
TIMEOUT = {"quick": 1500, "thorough": 5400}
N = {"quick": (6, 10), "thorough": (12, 120)}
JOBS = 16
_BALANCES = {}


def plan(tier, seed):
    ns, per = N[tier]
    shards = [{"n": per} for _ in range(ns)]
    if tier == "thorough":
        shards += [{"n": per // 3, "env": {"NUMBA_NUM_THREADS": "1"}}, {"n": per // 3, "env": {"NUMBA_NUM_THREADS": "16"}},
                   {"n": per // 4, "env": {"NUMBA_BOUNDSCHECK": "1"}}]
    return shards


def judge(ctx, c):
    import xarray
    pair = c["pair"]
    gen_name, dis_name = pair.split("/")
    # source-term objects are long-lived in real use: one object per (pair, parameter set) is reused for every case
    # of the shard, so that state kept on the object between calls (grids, work arrays) would be observed
    bkey = (pair, repr(c.get("gen_params")), repr(c.get("dis_params")))
    b = _BALANCES.get(bkey)
    if b is None:
        b = _BALANCES[bkey] = wl.make_balance(gen_name, dis_name, c.get("gen_params"), c.get("dis_params"))
    else:
        ctx.count("C08.cases_on_a_reused_source_term_object")
    s = wl.build(c)
    E = np.asarray(c["E"], float)
    n, nf, nd = E.shape
    u, wd = wl.da(c["u10"]), wl.da(c["wdir"])
    itype = c["input_type"]
    df, dth = wl.steps(s)
    area = df[:, None] * dth[None, :]
    cosm = np.cos(np.deg2rad(np.asarray(c["dir"])[None, :] - np.asarray(c["wdir"])[:, None]))  # (n, nd)
    downwind_energy = bool(np.any((cosm[:, None, :] > 0.1) & (E > 0)))
    ctx.count(f"C08.pair:{pair}")
    ctx.count(f"C08.input:{itype}")
    ctx.count("C08.finite_depth_points", int(np.isfinite(c["depth"]).sum()))
    ctx.case((c["kind"], nd, pair, bool(c.get("gen_params")), bool(c.get("dis_params")), itype),
             nontrivial=downwind_energy,
             sample={"kind": c["kind"], "nd": nd, "nf": nf, "points": n, "u10": c["u10"], "wdir": c["wdir"],
                     "depth": c["depth"], "pair": pair})
    wit = lambda: {"gen": c}  # noqa
    speed = u
    if itype == "friction_velocity":
        speed = wl.da(np.asarray(c["u10"]) * 0.035)  # a plausible u*
    # ---- roughness (implicit), fall back to a supplied value where missing
    ok, z = guarded(ctx, "C08.no-exception", lambda: b.generation.roughness(speed, wd, s, wind_speed_input_type=itype),
                    wit, key="C08:exception:roughness")
    if not ok:
        return
    z0 = np.asarray(z.values, float)
    ctx.count("C08.points_with_nan_roughness", int(np.isnan(z0).sum()))
    z0 = np.where(np.isfinite(z0) & (z0 > 0), z0, 2e-4)
    zda = wl.da(z0)
    # ---- generation
    ok, r = guarded(ctx, "C08.no-exception",
                    lambda: b.generation.rate(s, speed, wd, roughness_length=zda, wind_speed_input_type=itype), wit,
                    key="C08:exception:generation.rate")
    if not ok:
        return
    R = np.asarray(r.values, float)
    if R.shape != E.shape:
        ctx.check("C08.generation>=0", False, wit, {"shape": R.shape}, key="C08:generation:shape")
        return
    ctx.check("C08.generation>=0", bool(np.all(R >= 0)), wit, {"min": float(np.nanmin(R)), "nan": int(np.isnan(R).sum())},
              key="C08:generation:sign")
    ctx.check("C08.generation==0-where-E==0", bool(np.all(R[E == 0] == 0)), wit, key="C08:generation:support")
    up = np.broadcast_to((cosm <= -1e-9)[:, None, :], E.shape)
    ctx.check("C08.generation==0-upwind", bool(np.all(R[up] == 0)), wit,
              {"max_upwind": float(np.max(np.abs(R[up]), initial=0))}, key="C08:generation:upwind")
    cf = float(c["scale"])
    s2 = wl.build(c, E * cf)
    ok, r2 = guarded(ctx, "C08.no-exception",
                     lambda: b.generation.rate(s2, speed, wd, roughness_length=zda, wind_speed_input_type=itype), wit,
                     key="C08:exception:generation.rate")
    if ok:
        ctx.close("C08.generation:linear-in-E-at-fixed-roughness", r2.values, cf * R,
                  atol=1e-10 * float(np.max(R, initial=0)) * cf, rtol=1e-10, case=wit, key="C08:generation:linear")
    ok, br = guarded(ctx, "C08.no-exception",
                     lambda: b.generation.bulk_rate(s, speed, wd, roughness_length=zda, wind_speed_input_type=itype), wit,
                     key="C08:exception:generation.bulk_rate")
    if ok:
        want = np.sum(R * area[None], axis=(1, 2))
        ctx.close("C08.generation.bulk==integral(rate)", br.values, want, atol=1e-300, rtol=1e-9, case=wit,
                  key="C08:generation:bulk")
    # default path (roughness solved implicitly inside the call, for either wind input type): agrees with the
    # supplied-roughness path where the roughness exists, and its bulk rate is the integral of its spectral rate
    if c.get("check_default"):
        ok, rd = guarded(ctx, "C08.no-exception",
                         lambda: b.generation.rate(s, speed, wd, wind_speed_input_type=itype), wit,
                         key="C08:exception:generation.rate")
        okb2, bd = guarded(ctx, "C08.no-exception",
                           lambda: b.generation.bulk_rate(s, speed, wd, wind_speed_input_type=itype), wit,
                           key="C08:exception:generation.bulk_rate")
        zz = np.asarray(z.values, float)
        good = np.isfinite(zz)
        if ok:
            ctx.close("C08.generation:default-roughness-path", np.asarray(rd.values)[good], R[good],
                      atol=1e-12 * float(np.max(R, initial=0)), rtol=1e-9, case=wit, key="C08:generation:default")
        if ok and okb2:
            want = np.sum(np.asarray(rd.values, float) * area[None], axis=(1, 2))
            ctx.close("C08.generation.bulk==integral(rate)", np.asarray(bd.values)[good], want[good], atol=1e-300, rtol=1e-8,
                      case=wit, key="C08:generation:bulk:implicit-roughness")
    # ---- dissipation
    ok, d = guarded(ctx, "C08.no-exception", lambda: b.dissipation.rate(s), wit, key="C08:exception:dissipation.rate")
    if not ok:
        return
    D = np.asarray(d.values, float)
    ctx.check("C08.dissipation<=0", bool(np.all(D <= 0)), wit, {"max": float(np.nanmax(D)), "nan": int(np.isnan(D).sum())},
              key="C08:dissipation:sign")
    ctx.check("C08.dissipation==0-where-E==0", bool(np.all(D[E == 0] == 0)), wit, key="C08:dissipation:support")
    ok, db = guarded(ctx, "C08.no-exception", lambda: b.dissipation.bulk_rate(s), wit, key="C08:exception:dissipation.bulk")
    if ok:
        want = np.sum(D * area[None], axis=(1, 2))
        ctx.close("C08.dissipation.bulk==integral(rate)", db.values, want, atol=1e-300, rtol=1e-9, case=wit,
                  key="C08:dissipation:bulk")
    if dis_name != "romero":
        s0 = wl.build(c, np.zeros_like(E))
        ok, d0 = guarded(ctx, "C08.no-exception", lambda: b.dissipation.rate(s0), wit, key="C08:exception:dissipation.rate")
        if ok:
            ctx.check("C08.dissipation:empty-spectrum==0", bool(np.all(np.asarray(d0.values) == 0)), wit,
                      key="C08:dissipation:empty")
    # ---- a second spectrum of the *same shape* on different grids (frequencies stretched, directions offset by half
    #      a bin), evaluated with the same source-term objects: bulk rates must use that spectrum's own bins
    c_sib = dict(c)
    c_sib["freq"] = np.asarray(c["freq"]) * 1.37
    if c.get("sib_widths") is not None:
        # ... and with direction bins of unequal width ("the spectrum's own bin widths"): the same numbers on a
        # non-uniform direction grid are simply another non-negative spectrum
        wdt = np.asarray(c["sib_widths"], float)
        wdt = wdt / wdt.sum() * 360.0
        c_sib["dir"] = (np.cumsum(wdt) - wdt[0] + float(c.get("sib_start", 0.0))) % 360.0
        ctx.count("C08.second_grid_with_unequal_direction_bins")
    else:
        c_sib["dir"] = (np.asarray(c["dir"]) + 180.0 / nd) % 360.0
    s_sib = wl.build(c_sib)
    # ("own bin widths" = the spectrum object's direction_step, whose definition C02 judges)
    df2, dth2 = wl.steps(s_sib)
    area2 = df2[:, None] * dth2[None, :]
    okr, r_s = guarded(ctx, "C08.no-exception",
                       lambda: b.generation.rate(s_sib, speed, wd, roughness_length=zda, wind_speed_input_type=itype), wit,
                       key="C08:exception:generation.rate")
    okb_, b_s = guarded(ctx, "C08.no-exception",
                        lambda: b.generation.bulk_rate(s_sib, speed, wd, roughness_length=zda, wind_speed_input_type=itype), wit,
                        key="C08:exception:generation.bulk_rate")
    if okr and okb_:
        ctx.close("C08.generation.bulk==integral(rate)", b_s.values, np.sum(np.asarray(r_s.values, float) * area2[None], axis=(1, 2)),
                  atol=1e-300, rtol=1e-9, case=wit, key="C08:generation:bulk:second-grid")
    okr, d_s = guarded(ctx, "C08.no-exception", lambda: b.dissipation.rate(s_sib), wit, key="C08:exception:dissipation.rate")
    okb_, db_s = guarded(ctx, "C08.no-exception", lambda: b.dissipation.bulk_rate(s_sib), wit, key="C08:exception:dissipation.bulk")
    if okr and okb_:
        ctx.close("C08.dissipation.bulk==integral(rate)", db_s.values, np.sum(np.asarray(d_s.values, float) * area2[None], axis=(1, 2)),
                  atol=1e-300, rtol=1e-9, case=wit, key="C08:dissipation:bulk:second-grid")
        # and the result equals what a fresh object gives for that spectrum
        fresh = wl.make_balance(gen_name, dis_name, c.get("gen_params"), c.get("dis_params"))
        okf, d_f = guarded(ctx, "C08.no-exception", lambda: fresh.dissipation.rate(s_sib), wit, key="C08:exception:dissipation.rate")
        if okf:
            ctx.close("C08.reused-object==fresh-object", d_s.values, d_f.values,
                      atol=1e-12 * float(np.max(np.abs(d_f.values), initial=0)), rtol=1e-12, case=wit, key="C08:reuse")
    # ---- imbalance (u10 input only: evaluate_* do not take an input type)
    if itype == "u10":
        dE = np.asarray(c["dEdt"], float)
        sdot = wl.build(c, dE)
        ok, im = guarded(ctx, "C08.no-exception", lambda: b.evaluate_imbalance(u, wd, s, sdot), wit,
                         key="C08:exception:imbalance")
        okg, rg = guarded(ctx, "C08.no-exception", lambda: b.generation.rate(s, u, wd), wit, key="C08:exception:generation.rate")
        if ok and okg:
            want = np.asarray(rg.values) + D - dE
            fin = np.isfinite(want)
            sc = float(np.max(np.abs(want[fin]), initial=0))
            ctx.close("C08.imbalance==gen+diss-dEdt", np.asarray(im.values)[fin], want[fin], atol=1e-12 * sc, rtol=1e-10,
                      case=wit, key="C08:imbalance")
        ok, bi = guarded(ctx, "C08.no-exception", lambda: b.evaluate_bulk_imbalance(u, wd, s, sdot), wit,
                         key="C08:exception:bulk_imbalance")
        okb, gb = guarded(ctx, "C08.no-exception", lambda: b.generation.bulk_rate(s, u, wd), wit,
                          key="C08:exception:generation.bulk_rate")
        if ok and okb and db is not None:
            want = np.asarray(gb.values) + np.asarray(db.values) - np.asarray(sdot.m0().values)
            fin = np.isfinite(want)
            sc = float(np.max(np.abs(want[fin]), initial=0))
            ctx.close("C08.bulk-imbalance==gen+diss-m0(dEdt)", np.asarray(bi.values)[fin], want[fin], atol=1e-11 * sc,
                      rtol=1e-9, case=wit, key="C08:bulk-imbalance")
        if n > 1:
            # the supplied rate of change belongs to the spectra by its time stamps, not by its position: the same
            # tendency with its records in another order must give the same imbalance
            perm = [int(k) for k in c.get("perm", list(range(n))[::-1])]
            if perm == sorted(perm):
                perm = perm[::-1]
            sdot_p = sdot.isel(time=perm)
            okp, imp = guarded(ctx, "C08.no-exception", lambda: b.evaluate_imbalance(u, wd, s, sdot_p), wit, key="C08:exception:imbalance")
            if ok and okp:
                a_, b_ = np.asarray(im.values, float), np.asarray(imp.transpose(*im.dims).sel(time=im.time).values, float)
                fin = np.isfinite(a_)
                ctx.close("C08.imbalance==gen+diss-dEdt", b_[fin], a_[fin], atol=1e-12 * float(np.max(np.abs(a_[fin]), initial=0)),
                          rtol=1e-10, case=wit, key="C08:imbalance:tendency-records-reordered")
            okp, bip = guarded(ctx, "C08.no-exception", lambda: b.evaluate_bulk_imbalance(u, wd, s, sdot_p), wit, key="C08:exception:bulk_imbalance")
            if okp and okb and db is not None and ok:
                a_ = np.asarray(bi.values, float)
                b_ = np.asarray(bip.sel(time=bi.time).values, float)
                fin = np.isfinite(a_)
                ctx.close("C08.bulk-imbalance==gen+diss-m0(dEdt)", b_[fin], a_[fin], atol=1e-11 * float(np.max(np.abs(a_[fin]), initial=0)),
                          rtol=1e-9, case=wit, key="C08:bulk-imbalance:tendency-records-reordered")
            ctx.count("C08.tendency_with_reordered_records")
        # without a rate of change
        ok, im0 = guarded(ctx, "C08.no-exception", lambda: b.evaluate_imbalance(u, wd, s), wit, key="C08:exception:imbalance")
        if ok and okg:
            want = np.asarray(rg.values) + D
            fin = np.isfinite(want)
            ctx.close("C08.imbalance==gen+diss-dEdt", np.asarray(im0.values)[fin], want[fin],
                      atol=1e-12 * float(np.max(np.abs(want[fin]), initial=0)), rtol=1e-10, case=wit, key="C08:imbalance")
    # ---- the same numbers stored as float32 (compressed files): rates are float64 fields of the same values
    if dis_name != "romero" and c.get("check_default"):
        from ocean_science_utilities.wavespectra.spectrum import create_2d_spectrum
        Ei = np.round(E / max(float(E.max()), 1e-300) * 2000.0)
        s_f = wl.build(c, Ei)
        okr, r_f = guarded(ctx, "C08.no-exception", lambda: b.dissipation.rate(s_f), wit, key="C08:exception:dissipation.rate")
        for dtp in ("float32",):  # (integer-typed densities are not a realistic input and are left out)
            with warnings.catch_warnings():
                warnings.simplefilter("ignore")
                s_t = create_2d_spectrum(np.asarray(c["freq"], float), np.asarray(c["dir"], float), Ei.astype(dtp),
                                         np.arange(n) * 3600, np.zeros(n), np.zeros(n), depth=np.asarray(c["depth"], float))
            okt, r_t = guarded(ctx, "C08.no-exception", lambda: (b.dissipation.rate(s_t), b.dissipation.bulk_rate(s_t)), wit,
                               key="C08:exception:dissipation.rate")
            if okr and okt:
                ctx.count("C08.spectra_stored_as_" + dtp)
                a_, b_ = np.asarray(r_f.values, float), np.asarray(r_t[0].values, float)
                sc_ = float(np.max(np.abs(a_), initial=0))
                ctx.close("C08.dissipation.bulk==integral(rate)", b_, a_, atol=1e-10 * sc_ + 1e-300, rtol=1e-9, case=wit,
                          key="C08:dissipation:dtype:" + dtp)
                ctx.close("C08.dissipation.bulk==integral(rate)", np.asarray(r_t[1].values, float), np.sum(b_ * area[None], axis=(1, 2)),
                          atol=1e-300, rtol=1e-9, case=wit, key="C08:dissipation:bulk:dtype:" + dtp)
    # ---- the same balance object and the same spectrum object after update_parameters() (the calibration loop's
    #      pattern): the imbalance must be generation + dissipation - dE/dt of terms carrying the NEW parameters
    if itype == "u10" and c.get("upd") and dis_name == "st4":
        hb = wl.make_balance(gen_name, dis_name, c.get("gen_params"), c.get("dis_params"))
        sdot_h = wl.build(c, np.asarray(c["dEdt"], float))
        wit_h = lambda: {"gen": c, "update_parameters_history": True}  # noqa
        ok0, _ = guarded(ctx, "C08.no-exception", lambda: (hb.evaluate_imbalance(u, wd, s, sdot_h), hb.evaluate_bulk_imbalance(u, wd, s, sdot_h)),
                         wit_h, key="C08:exception:imbalance")
        upd = dict(c["upd"])
        hb.update_parameters(upd)
        ok1, after = guarded(ctx, "C08.no-exception", lambda: (hb.evaluate_imbalance(u, wd, s, sdot_h), hb.evaluate_bulk_imbalance(u, wd, s, sdot_h)),
                             wit_h, key="C08:exception:imbalance")
        fresh = wl.make_balance(gen_name, dis_name, dict(c.get("gen_params") or {}), dict(c.get("dis_params") or {}))
        fresh.update_parameters(upd)
        s_new = wl.build(c)
        ok2, parts = guarded(ctx, "C08.no-exception",
                             lambda: (fresh.generation.rate(s_new, u, wd), fresh.dissipation.rate(s_new),
                                      fresh.generation.bulk_rate(s_new, u, wd), fresh.dissipation.bulk_rate(s_new)), wit_h,
                             key="C08:exception:imbalance")
        if ok0 and ok1 and ok2:
            ctx.count("C08.update_parameters_histories")
            want = np.asarray(parts[0].values) + np.asarray(parts[1].values) - np.asarray(c["dEdt"], float)
            got = np.asarray(after[0].values, float)
            fin = np.isfinite(want)
            ctx.close("C08.imbalance==gen+diss-dEdt", got[fin], want[fin], atol=1e-12 * float(np.max(np.abs(want[fin]), initial=0)), rtol=1e-10,
                      case=wit_h, key="C08:imbalance:after-update_parameters")
            wantb = np.asarray(parts[2].values) + np.asarray(parts[3].values) - np.asarray(sdot_h.m0().values)
            gotb = np.asarray(after[1].values, float)
            fin = np.isfinite(wantb)
            ctx.close("C08.bulk-imbalance==gen+diss-m0(dEdt)", gotb[fin], wantb[fin], atol=1e-11 * float(np.max(np.abs(wantb[fin]), initial=0)),
                      rtol=1e-9, case=wit_h, key="C08:bulk-imbalance:after-update_parameters")
    # ---- batch independence
    if n > 1:
        for i in range(min(n, 3)):
            si = wl.build(c, idx=[i])
            ui, wi, zi = wl.da(np.asarray(speed.values)[[i]]), wl.da(np.asarray(c["wdir"])[[i]]), wl.da(z0[[i]])
            ok, ri = guarded(ctx, "C08.no-exception",
                             lambda: b.generation.rate(si, ui, wi, roughness_length=zi, wind_speed_input_type=itype), wit,
                             key="C08:exception:generation.rate")
            if ok:
                ctx.close("C08.batch==single", np.asarray(ri.values)[0], R[i], atol=1e-12 * float(np.max(R[i], initial=0)),
                          rtol=1e-12, case=lambda: {"gen": c, "point": i}, key="C08:batch:generation")
            ok, di = guarded(ctx, "C08.no-exception", lambda: b.dissipation.rate(si), wit, key="C08:exception:dissipation.rate")
            if ok:
                ctx.close("C08.batch==single", np.asarray(di.values)[0], D[i],
                          atol=1e-12 * float(np.max(np.abs(D[i]), initial=0)), rtol=1e-12,
                          case=lambda: {"gen": c, "point": i}, key="C08:batch:dissipation")
            ok, zi2 = guarded(ctx, "C08.no-exception",
                              lambda: b.generation.roughness(ui, wi, si, wind_speed_input_type=itype), wit,
                              key="C08:exception:roughness")
            if ok:
                ctx.close("C08.batch==single", np.asarray(zi2.values), np.asarray(z.values)[[i]], atol=0, rtol=1e-9,
                          case=lambda: {"gen": c, "point": i}, key="C08:batch:roughness")
        perm = np.asarray(c["perm"], int)
        sp = wl.build(c, idx=perm)
        ok, rp = guarded(ctx, "C08.no-exception",
                         lambda: b.generation.rate(sp, wl.da(np.asarray(speed.values)[perm]), wl.da(np.asarray(c["wdir"])[perm]),
                                                   roughness_length=wl.da(z0[perm]), wind_speed_input_type=itype), wit,
                         key="C08:exception:generation.rate")
        okd, dp = guarded(ctx, "C08.no-exception", lambda: b.dissipation.bulk_rate(sp), wit, key="C08:exception:dissipation.bulk")
        if ok:
            ctx.close("C08.batch:shuffle-equivariant", rp.values, R[perm], atol=1e-12 * float(np.max(R, initial=0)),
                      rtol=1e-12, case=wit, key="C08:batch:shuffle")
        if okd and db is not None:
            ctx.close("C08.batch:shuffle-equivariant", dp.values, np.asarray(db.values)[perm], atol=1e-300, rtol=1e-12,
                      case=wit, key="C08:batch:shuffle")


def make(rng, i):
    pair = ["st4/st4", "st4/st6", "st4/st4", "st4/st6", "st4/romero"][i % 5]
    positive = pair.endswith("romero")
    kind = None if not positive else "windsea"
    c = wl.make_case(rng, kind=kind, positive=positive)
    gen_params = wl.GEN_PARAM_SETS[int(rng.integers(0, len(wl.GEN_PARAM_SETS)))] if rng.uniform() < 0.4 else None
    dsets = wl.DIS_PARAM_SETS[pair.split("/")[1]]
    dis_params = dsets[int(rng.integers(0, len(dsets)))] if rng.uniform() < 0.4 else None
    E = np.asarray(c["E"])
    if E.shape[0] >= 2 and not positive and rng.uniform() < 0.35:
        # a batch with an empty member (not the last one) and depths that differ from member to member
        j = int(rng.integers(0, E.shape[0] - 1))
        E = E.copy()
        E[j] = 0.0
        c["E"] = E
        c["depth"] = 10 ** rng.uniform(0.7, 2.5, E.shape[0])
        c["kind"] = c["kind"] + "+empty-member"
    c.update({"pair": pair, "gen_params": gen_params, "dis_params": dis_params,
              "input_type": "friction_velocity" if i % 4 in (2, 3) else "u10",
              "scale": float(rng.uniform(0.3, 3.0)),
              "dEdt": rng.normal(0, 1e-6, E.shape) * (E > 0),
              "perm": rng.permutation(E.shape[0]), "check_default": bool(i % 2 == 0)})
    if rng.uniform() < 0.9:
        c["upd"] = [{"saturation_breaking_constant": 3.0e-5}, {"saturation_threshold": 0.0008, "growth_parameter_betamax": 1.3},
                    {"saturation_breaking_constant": 1.2e-5, "saturation_threshold": 0.0011}][int(rng.integers(0, 3))]
    if rng.uniform() < 0.6:
        c["sib_widths"] = rng.uniform(0.5, 1.5, E.shape[-1])
        c["sib_start"] = float(rng.uniform(0, 360))
    return c


def run_shard(ctx, shard):
    rng = ctx.rng()
    for i in range(shard["n"]):
        judge(ctx, make(rng, i + shard.get("index", 0)))


def replay(ctx, case):
    judge(ctx, case["gen"])
