"""C02 - directional integration conserves energy and bounds the moments; 1D reduction."""
from __future__ import annotations

import numpy as np

from ..core import guarded
from ..gens import spectra as gs
from ..monitors import spectrum as ms
from ..monitors import history as hist
from ..oracles import spectral as osp

PROPERTY = "C02"
LEVEL = "exploration"
RULE = ("seeded non-negative 2D spectra on direction grids of 8..144 bins (uniform from 0, uniform with "
        "arbitrary start in [-180,360), cyclically rotated [0,360) arrays, non-uniform, non-uniform rotated) "
        "x density kinds (unimodal, multimodal, delta in one bin, zero bins, noise) x NaN patterns x layouts; "
        "postconditions on direction_step/e/a1/b1/a2/b2 recompute the sums from raw arrays; the 1D reduction "
        "is compared with the 2D object on every bulk parameter. distinct = descriptor; non-trivial = at "
        "least one frequency with positive energy in >= 2 direction bins.")
ASSUMPTIONS = ["direction grids cover the circle with all gaps < 180 degrees",
               "on non-uniform grids a bin width may be the forward, backward or centred wrapped difference"]
REQUIRED_MONITORS = ["C02.direction_step:sum=360", "C02.direction_step==360/N",
                     "C02.direction_step==wrapped-neighbour-difference", "C02.e==sum(E*step)",
                     "C02.a1==weighted-sum/e", "C02.b2==weighted-sum/e", "C02.|a1|<=1", "C02.a1^2+b1^2<=1",
                     "C02.integrate_spectral_data(direction)==e", "C02.integrate_spectral_data(both)==m0",
                     "C02.reduce:hm0", "C02.reduce:mean_direction", "C02.reduce:carry-over"]
REQUIRED_REACH = ["spectrum.py:FrequencyDirectionSpectrum.direction_step",
                  "spectrum.py:FrequencyDirectionSpectrum._directionally_integrate",
                  "spectrum.py:FrequencyDirectionSpectrum.as_frequency_spectrum",
                  "operations.py:integrate_spectral_data", "math.py:wrapped_difference"]
TIMEOUT = {"quick": 600, "thorough": 2400}
N = {"quick": (8, 40), "thorough": (16, 500)}


def plan(tier, seed):
    ns, per = N[tier]
    shards = [{"n": per} for _ in range(ns)]
    if tier == "thorough":
        shards.append({"repo_tests": True, "n": 0, "allk": False})
    return shards


def make_case(rng):
    nank = str(rng.choice(["none", "none", "single", "row", "scatter", "all_one_spectrum"]))
    return gs.case_2d(rng, nankind=nank, allow_zero=False)


def judge(ctx, c):
    from ocean_science_utilities.wavespectra.operations import integrate_spectral_data
    ms.install(ctx)
    s = gs.build(c)
    E = np.asarray(c["E"], dtype=float)
    nz = (np.where(np.isnan(E), 0, E) > 0).sum(axis=-1)
    ctx.case(gs.descriptor(c), nontrivial=bool((nz >= 2).any()),
             sample={"direction": c["dir"], "freq": c["freq"], "layout": c["layout"],
                     "E_shape": list(E.shape), "nankind": c["nankind"]})
    wit = lambda: {"gen": c}  # noqa
    vals = {}
    for name in ("direction_step", "e", "a1", "b1", "a2", "b2"):
        ok, v = guarded(ctx, "C02.no-exception", lambda: getattr(s, name), wit)
        if ok:
            vals[name] = np.asarray(v.values, dtype=float)
    if len(vals) < 6:
        return
    pos = vals["e"] > 0
    r2 = vals["a1"][pos] ** 2 + vals["b1"][pos] ** 2
    ctx.check("C02.a1^2+b1^2<=1", bool(np.all(r2 <= 1 + 1e-12)), wit, {"max": float(np.max(r2, initial=0))},
              key="C02:disc")
    # DataArray quadrature
    ok, ed = guarded(ctx, "C02.no-exception", lambda: integrate_spectral_data(s.variance_density, "direction"), wit)
    if ok:
        scale = float(np.nanmax(np.abs(vals["e"]), initial=0))
        ctx.close("C02.integrate_spectral_data(direction)==e", ed.values, vals["e"], atol=1e-12 * scale + 1e-300,
                  rtol=1e-12, case=wit, key="C02:isd")
    ok, m0 = guarded(ctx, "C02.no-exception",
                     lambda: integrate_spectral_data(s.variance_density, ["frequency", "direction"]), wit)
    if ok and len(c["freq"]) >= 1:
        want, mag = osp.moment(vals["e"], c["freq"], 0)
        ctx.close("C02.integrate_spectral_data(both)==m0", np.asarray(m0.values), want,
                  atol=1e-11 * float(np.max(mag, initial=0)) + 1e-300, rtol=1e-11, case=wit, key="C02:isd")
    # 1D reduction
    ok, s1 = guarded(ctx, "C02.no-exception", lambda: s.as_frequency_spectrum(), wit)
    if not ok:
        return
    ctx.check("C02.reduce:class", type(s1).__name__ == "FrequencySpectrum", wit, key="C02:reduce")
    for name in ("time", "latitude", "longitude", "depth"):
        a, b = s.dataset[name], s1.dataset[name]
        same = (a.dims == b.dims and a.values.shape == b.values.shape and
                (np.array_equal(a.values, b.values, equal_nan=True) if a.values.dtype.kind == "f"
                 else np.array_equal(a.values, b.values)))
        ctx.check("C02.reduce:carry-over", bool(same), wit, {"var": name}, key="C02:reduce:carry")
    ctx.close("C02.reduce:e", s1.variance_density.values, vals["e"], atol=0, rtol=0, case=wit, key="C02:reduce")
    for name in ("hm0", "tm01", "tm02", "peak_frequency"):
        ok1, a = guarded(ctx, "C02.no-exception", lambda: getattr(s, name)(), wit)
        ok2, b = guarded(ctx, "C02.no-exception", lambda: getattr(s1, name)(), wit)
        if ok1 and ok2:
            ctx.close(f"C02.reduce:{name}", np.asarray(b.values, float), np.asarray(a.values, float),
                      atol=1e-300, rtol=1e-10, case=wit, key=f"C02:reduce:{name}")
    emax = np.max(vals["e"], axis=-1) if vals["e"].shape[-1] else np.zeros(vals["e"].shape[:-1])
    defined = emax > 0
    for name, ang in (("peak_direction", True), ("mean_direction", True),
                      ("peak_directional_spread", False), ("mean_directional_spread", False)):
        ok1, a = guarded(ctx, "C02.no-exception", lambda: getattr(s, name)(), wit, key="C02:" + name + ":exception")
        ok2, b = guarded(ctx, "C02.no-exception", lambda: getattr(s1, name)(), wit, key="C02:" + name + ":exception")
        if not (ok1 and ok2):
            continue
        a = np.asarray(getattr(a, "values", a), float)
        b = np.asarray(getattr(b, "values", b), float)
        if a.shape != b.shape or a.shape != defined.shape:
            ctx.check(f"C02.reduce:{name}", False, wit, {"shape2d": a.shape, "shape1d": b.shape}, key=f"C02:reduce:{name}")
            continue
        a, b = a[defined], b[defined]
        fin = ~(np.isnan(a) & np.isnan(b))
        if ang:
            dev = np.abs(osp.circ_diff(a[fin], b[fin]))
            ctx.check(f"C02.reduce:{name}", bool(np.all(dev <= 1e-7)), wit, {"a": a, "b": b}, key=f"C02:reduce:{name}")
        else:
            ctx.close(f"C02.reduce:{name}", b[fin], a[fin], atol=1e-7, rtol=1e-9, case=wit, key=f"C02:reduce:{name}")


def history_io(c):
    reads = hist.reads_from(c, banded=("m0", "hm0"), plain=("e", "a1", "b1", "a2", "b2"),
                            calls=(("as_frequency_spectrum().variance_density",
                                    lambda s: s.as_frequency_spectrum().variance_density),))
    return reads, hist.spectrum_mods(c, with_depth=False)


def run_shard(ctx, shard):
    if shard.get("repo_tests"):
        from ..core import run_repo_tests_under_contracts
        ms.install(ctx)
        run_repo_tests_under_contracts(ctx)
        return
    rng = ctx.rng()
    for i in range(shard["n"]):
        c = make_case(rng)
        judge(ctx, c)
        d_ = np.asarray(c["dir"], float)
        if i % 3 == 0 and len(d_) >= 6:
            # a second spectrum in the same process on a grid of the same length and the same first/last angle whose
            # interior angles differ (anything remembered from the first grid must not leak into this one)
            c2 = dict(c)
            fw = (np.roll(d_, -1) - d_ + 180.0) % 360.0 - 180.0
            shift = np.zeros_like(d_)
            shift[1:-1] = rng.uniform(-0.35, 0.35, len(d_) - 2) * np.minimum(np.abs(fw[:-2]), np.abs(fw[1:-1]))
            c2["dir"] = d_ + shift
            c2["dkind"] = str(c["dkind"]) + "+interior-moved"
            ctx.count("C02.second_grid_same_ends_other_interior")
            judge(ctx, c2)
        if i % 2 == 0:
            c["_hseed"] = int(rng.integers(0, 2 ** 62))
            hist.judge_history(ctx, "C02", c, np.random.default_rng(c["_hseed"]), *history_io(c))


def replay(ctx, case):
    ms.install(ctx)
    if "method" in case:
        ms.call_case(case)
    elif "history" in case:
        hist.run_history(ctx, "C02", case["gen"], case["history"], *history_io(case["gen"]))
    else:
        judge(ctx, case["gen"])
