"""C11 - wind inversion closes the source-term balance."""
from __future__ import annotations

import numpy as np

from ..core import guarded
from .. import wavelab as wl

PROPERTY = "C11"
LEVEL = "exploration"
RULE = ("JONSWAP wind seas steep enough for non-zero ST4/ST6 dissipation (steepness 2-6 %), swell+sea mixtures and "
        "low-steepness swell (zero-dissipation branch), all wind directions, finite/infinite depth, batches of 1..8, "
        "pairs st4/st4 and st4/st6, with and without a rate-of-change spectrum, both entry points "
        "(estimate_u10_from_source_terms with its equilibrium-range first guess, "
        "windspeed_and_direction_from_spectra with perturbed guesses). The returned U10 is judged by re-evaluating the "
        "balance G(u) = generation.bulk_rate(u,dir) + dissipation.bulk_rate - sum_{generation>0} dE/dt through the "
        "public API at u10-0.03, u10, u10+0.03, and by an independent scan of G over 2..40 m/s. distinct = (kind, pair, "
        "entry point, dE/dt?, depth class); non-trivial = non-zero dissipation and G changes sign on the scan.")
ASSUMPTIONS = ["solver step tolerance 0.01 m/s -> root bracketed within +-0.03 m/s or |G| <= 0.03 |G'|",
               "points whose implicit roughness is NaN at the returned wind are not judged (allowed by C10)"]
REQUIRED_MONITORS = ["C11.zero-dissipation=>u10==0", "C11.u10-closes-balance", "C11.u10>0-or-NaN",
                     "C11.direction==dissipation-direction", "C11.not-degenerate(finite-when-root-exists)"]
REQUIRED_COUNTERS = {"C11.points_with_root_on_scan": 5, "C11.points_zero_dissipation": 2, "C11.pair:st4/st4": 2,
                     "C11.pair:st4/st6": 2, "C11.with_dEdt": 2}
TIMEOUT = {"quick": 2400, "thorough": 7200}
N = {"quick": (6, 6), "thorough": (12, 40)}


def plan(tier, seed):
    ns, per = N[tier]
    shards = [{"n": per} for _ in range(ns)]
    if tier == "thorough":
        shards.append({"n": per // 3, "env": {"NUMBA_BOUNDSCHECK": "1"}})
    return shards


def G_of(b, s, c, u_values, direction, dis_bulk, dEdt, area):
    """balance function composed from public calls; u_values: (npoints,) array"""
    u = wl.da(u_values)
    d = wl.da(direction)
    gb = np.asarray(b.generation.bulk_rate(s, u, d).values, float)
    if dEdt is not None:
        gr = np.asarray(b.generation.rate(s, u, d).values, float)
        active = gr > 0
        corr = np.sum(np.where(active, dEdt, 0.0) * area[None], axis=(1, 2))
    else:
        corr = 0.0
    return gb + dis_bulk - corr


def judge(ctx, c):
    from ocean_science_utilities.wavephysics.windestimate import estimate_u10_from_source_terms, estimate_u10_from_spectrum
    from ocean_science_utilities.wavephysics.balance.wind_inversion import windspeed_and_direction_from_spectra
    pair = c["pair"]
    g, d = pair.split("/")
    b = wl.make_balance(g, d)
    s = wl.build(c)
    E = np.asarray(c["E"], float)
    n = E.shape[0]
    df, dth = wl.steps(s)
    area = df[:, None] * dth[None, :]
    dEdt = np.asarray(c["dEdt"], float) if c.get("dEdt") is not None else None
    sdot = wl.build(c, dEdt) if dEdt is not None else None
    ctx.count(f"C11.pair:{pair}")
    if dEdt is not None:
        ctx.count("C11.with_dEdt")
    wit = lambda: {"gen": c}  # noqa
    ok, res = guarded(ctx, "C11.no-exception",
                      lambda: estimate_u10_from_source_terms(s, b, time_derivative_spectrum=sdot), wit, key="C11:exception")
    if not ok:
        return
    u10 = np.asarray(res["u10"].values, float)
    wdir = np.asarray(res["direction"].values, float)
    dis_bulk = np.asarray(b.dissipation.bulk_rate(s).values, float)
    dis_dir = np.asarray(b.dissipation.mean_direction_degrees(s).values, float)
    if u10.shape != (n,):
        ctx.check("C11.u10>0-or-NaN", False, wit, {"shape": u10.shape}, key="C11:shape")
        return
    zero = dis_bulk == 0.0
    ctx.count("C11.points_zero_dissipation", int(zero.sum()))
    # direction (no direction iteration): exactly the dissipation-weighted direction
    ctx.check("C11.direction==dissipation-direction", bool(np.array_equal(wdir, dis_dir, equal_nan=True)), wit,
              {"direction": wdir, "dissipation_direction": dis_dir}, key="C11:direction")
    if zero.any():
        ctx.check("C11.zero-dissipation=>u10==0", bool(np.all(u10[zero] == 0.0)), wit, {"u10": u10[zero]}, key="C11:zero")
    nz = ~zero
    ctx.check("C11.u10>0-or-NaN", bool(np.all(np.isnan(u10[nz]) | (u10[nz] > 0))), wit, {"u10": u10}, key="C11:positive")
    # independent scan of G over 2..40 m/s
    scan = np.arange(2.0, 41.0, 1.0)
    Gs = np.full((len(scan), n), np.nan)
    for j, uu in enumerate(scan):
        Gs[j] = G_of(b, s, c, np.full(n, uu), dis_dir, dis_bulk, dEdt, area)
    has_root = np.zeros(n, dtype=bool)
    for i in range(n):
        col = Gs[:, i]
        fin = np.isfinite(col)
        sg = np.sign(col[fin])
        has_root[i] = bool(nz[i] and sg.size > 1 and np.any(sg[1:] * sg[:-1] < 0))
    ctx.count("C11.points_with_root_on_scan", int(has_root.sum()))
    parametric = c["kind"] in ("windsea", "mixed", "veering", "young")
    ctx.case((c["kind"], pair, "source_terms", dEdt is not None, bool(np.isfinite(c["depth"]).any())),
             nontrivial=bool(has_root.any()),
             sample={"kind": c["kind"], "pair": pair, "u10": u10, "direction": wdir, "dissipation_bulk": dis_bulk})
    guess = estimate_u10_from_spectrum(s, "peak", direction_convention="going_to_counter_clockwise_east")["u10"]

    def nan_key(bad):
        """mechanism classifier for 'NaN although the balance has a root': does another first guess converge at
        these points?  (a regression that returns NaN for *every* guess is a different mechanism)"""
        rescued = np.zeros(n, dtype=bool)
        tries = [guess * f_ for f_ in (0.3, 0.5, 0.8, 1.25, 2.0, 3.0)] + [guess * 0 + g_ for g_ in (5.0, 8.0, 10.0, 15.0, 20.0, 30.0)]
        for gval in tries:
            try:
                r_ = windspeed_and_direction_from_spectra(b, gval, s, time_derivative_spectrum=sdot)
                rescued |= np.isfinite(np.asarray(r_["u10"].values, float))
            except Exception:
                pass
        # where is the root, roughly (first sign change of the 1 m/s scan), and how far is the first guess from it?
        gv = np.asarray(guess.values, float)
        far = np.zeros(n, dtype=bool)
        for i in np.where(bad)[0]:
            col = Gs[:, i]
            jf = [j for j in range(len(scan)) if np.isfinite(col[j])]  # (as in has_root: scan winds at which the
            # balance is undefined are skipped, a sign change across such a gap counts)
            roots = [0.5 * (scan[a_] + scan[b_]) for a_, b_ in zip(jf[:-1], jf[1:]) if col[a_] * col[b_] < 0]
            ratio = min((gv[i] / r_ for r_ in roots), key=lambda q: abs(np.log(q)) if q > 0 else np.inf) if roots else np.nan
            ok_guess = np.isfinite(ratio) and 0.2 <= ratio <= 5.0
            ctx.count("C11.nan_points:first_guess_within_x5_of_a_root" if ok_guess else "C11.nan_points:first_guess_far_from_every_root")
            far[i] = not ok_guess
        if far.any():
            # the first guess itself is off by more than a factor five (or is not a number): that is not the solver
            # giving up from a reasonable start (the recorded finding) but a first guess that does not do its job
            return "C11:nan-with-bracketed-root:first-guess-far-from-root"
        if np.all(rescued[bad]):
            return "C11:nan-with-bracketed-root:first-guess-sensitive"
        return "C11:nan-with-bracketed-root:every-guess"

    if parametric and has_root.any():
        bad = has_root & ~np.isfinite(u10)
        ctx.count("C11.points_nan_with_root", int(bad.sum()))
        ctx.check("C11.not-degenerate(finite-when-root-exists)", not bad.any(), wit,
                  {"u10": u10, "has_root": has_root, "first_guess": np.asarray(guess.values), "G_at_scan": Gs[::6, :]},
                  key=nan_key(bad) if bad.any() else None)
    # returned values close the balance
    def closes_balance(uvals, label):
        # below ~3 m/s only a handful of bins is forced: the balance function is a flat staircase (|G| ~ 1e-9, slope
        # ~ 1e-9 per m/s) and a 0.01 m/s step tolerance does not translate into a distance to the root; those
        # points are counted, not judged (the code itself documents low-wind answers as inaccurate)
        ctx.count("C11.points_not_judged(u10 < 3 m/s)", int((nz & np.isfinite(uvals) & (uvals <= 3.0)).sum()))
        judge_pts = nz & np.isfinite(uvals) & (uvals > 3.0)
        if not judge_pts.any():
            return
        uu = np.where(judge_pts, uvals, 5.0)
        # precondition: the implicit roughness at the returned wind must be unambiguous. The roughness equation can
        # have several solutions / false convergences (C10 known finding); the inversion warm-starts it while
        # the public bulk_rate cold-starts it, so on such points the two evaluate different balance functions.
        ud, dd_ = wl.da(uu), wl.da(dis_dir)
        zc = np.asarray(b.generation.roughness(ud, dd_, s).values, float)
        amb = ~np.isfinite(zc)
        for fz in (0.2, 5.0):
            zg = np.asarray(b.generation.roughness(ud, dd_, s, roughness_length_guess=wl.da(np.where(np.isfinite(zc), zc, 1e-3) * fz)).values, float)
            amb |= ~np.isfinite(zg) | (np.abs(zg - zc) > 1e-3 * np.abs(zc))
        ctx.count("C11.points_not_judged(implicit roughness ambiguous at u10)", int((judge_pts & amb).sum()))
        judge_pts = judge_pts & ~amb
        h = 0.03
        g0 = G_of(b, s, c, uu, dis_dir, dis_bulk, dEdt, area)
        gm = G_of(b, s, c, np.maximum(uu - h, 1e-3), dis_dir, dis_bulk, dEdt, area)
        gp = G_of(b, s, c, uu + h, dis_dir, dis_bulk, dEdt, area)
        slope = np.abs(gp - gm) / (2 * h)
        usable = judge_pts & np.isfinite(g0) & np.isfinite(gm) & np.isfinite(gp)
        ctx.count("C11.points_judged_on_balance", int(usable.sum()))
        ctx.count("C11.points_not_judged(nan roughness near u10)", int((judge_pts & ~usable).sum()))
        okp = (gm * gp <= 0) | (np.abs(g0) <= h * slope)
        ctx.check("C11.u10-closes-balance", bool(np.all(okp[usable])), wit,
                  {"entry": label, "u10": uvals, "G(u10-h)": gm, "G(u10)": g0, "G(u10+h)": gp, "usable": usable},
                  key="C11:balance")
        with np.errstate(divide="ignore", invalid="ignore"):
            dist = np.abs(g0) / np.where(slope > 0, slope, np.nan)
        if np.any(usable & np.isfinite(dist)):
            ctx.ratio("C11.u10-closes-balance", float(np.nanmax(dist[usable])), h)

    closes_balance(u10, "estimate_u10_from_source_terms")
    # second entry point with its own (perturbed) first guess must find the same root
    guess2 = guess * float(c["guess_factor"])
    ok, res2 = guarded(ctx, "C11.no-exception",
                       lambda: windspeed_and_direction_from_spectra(b, guess2, s, time_derivative_spectrum=sdot), wit,
                       key="C11:exception")
    if ok:
        u2 = np.asarray(res2["u10"].values, float)
        # the second entry point (other first guess) must satisfy the same balance criterion - it need not return
        # the same number: with a rate-of-change spectrum the balance jumps where bins become actively forced and
        # may cross zero more than once
        closes_balance(u2, "windspeed_and_direction_from_spectra")
        both = np.isfinite(u10) & np.isfinite(u2)
        ctx.count("C11.entry_points_differ_by_more_than_0.1", int(np.sum(np.abs(u10[both] - u2[both]) > 0.1)))
        ctx.check("C11.second-entry-point:zero-dissipation=>u10==0", bool(np.all(u2[zero] == 0.0)), wit, {"u10": u2},
                  key="C11:zero:second")
        d2 = np.asarray(res2["direction"].values, float)
        ctx.check("C11.direction==dissipation-direction", bool(np.array_equal(d2, dis_dir, equal_nan=True)), wit,
                  {"direction": d2}, key="C11:direction:second")
        ctx.case((c["kind"], pair, "from_spectra", dEdt is not None), nontrivial=bool(has_root.any()))
        if parametric and has_root.any():
            bad = has_root & ~np.isfinite(u2)
            ctx.count("C11.points_nan_with_root", int(bad.sum()))
            ctx.check("C11.not-degenerate(finite-when-root-exists)", not bad.any(), wit,
                      {"u10": u2, "guess_factor": c["guess_factor"], "first_guess": np.asarray(guess2.values)},
                      key=nan_key(bad) if bad.any() else None)


def make(rng, i):
    pair = ["st4/st4", "st4/st6"][i % 2]
    kind = ["windsea", "veering", "mixed", "swell", "windsea", "young", "veering", "swell", "mixed", "young"][i % 10]
    c = wl.make_case(rng, kind=kind, npoints=int(rng.integers(1, 9)), nd=int(rng.choice([24, 36])))
    E = np.asarray(c["E"])
    if E.shape[0] >= 2 and rng.uniform() < 0.3:
        # the same sea observed at two places of different depth: identical variance densities, different answers
        E = E.copy()
        E[1] = E[0]
        c["E"] = E
        dep = np.array(c["depth"], dtype=float)
        dep[0], dep[1] = (np.inf, float(rng.uniform(4.0, 9.0))) if rng.uniform() < 0.5 else (float(rng.uniform(4.0, 9.0)), np.inf)
        c["depth"] = dep
        c["u10"] = np.array(c["u10"], dtype=float)
        c["u10"][1] = c["u10"][0]
        c["wdir"] = np.array(c["wdir"], dtype=float)
        c["wdir"][1] = c["wdir"][0]
        c["kind_note"] = "duplicate-sea-at-two-depths"
    # rate-of-change spectrum whose support avoids bins that switch between forced and unforced as U10 varies
    # (there the balance function jumps and "vanishes" is not well defined): (a) bins that are always actively
    # forced near the root - downwind (cos > 0.5) and well above the peak (f >= 1.6 fp) - and (b) upwind bins
    # (cos < -0.2), which are never forced and must therefore NOT enter the balance.
    dEdt = None
    if i % 3 == 1:
        e1 = E.sum(axis=-1)
        fpk = c["freq"][np.argmax(e1, axis=-1)]  # (npoints,)
        kx = (E * np.cos(np.deg2rad(c["dir"]))[None, None, :] * (c["freq"] ** 2)[None, :, None]).sum(axis=(1, 2))
        ky = (E * np.sin(np.deg2rad(c["dir"]))[None, None, :] * (c["freq"] ** 2)[None, :, None]).sum(axis=(1, 2))
        th = np.degrees(np.arctan2(ky, kx))  # approximately the dissipation-weighted direction
        cosm = np.cos(np.deg2rad(c["dir"][None, :] - th[:, None]))  # (npoints, nd)
        hi_f = c["freq"][None, :] >= 1.6 * fpk[:, None]  # (npoints, nf)
        always = hi_f[:, :, None] & (cosm[:, None, :] > 0.5)
        never = np.broadcast_to((cosm[:, None, :] < -0.2), E.shape)
        rate = rng.uniform(0.2e-5, 2e-5, (E.shape[0], 1, 1)) * rng.choice([-1.0, 1.0], (E.shape[0], 1, 1))
        emax = E.max(axis=(1, 2), keepdims=True)
        dEdt = np.where(always, E * rate, 0.0) + np.where(never, 0.02 * emax * np.abs(rate), 0.0)
    c.update({"pair": pair, "dEdt": dEdt,
              "guess_factor": float(rng.choice([0.6, 1.0, 1.5]))})
    return c


def weaken(c):
    """the same sea scaled down (per point) until it only just breaks: integrated dissipation between -5e-10 and
    -1e-12 - not zero, so the estimate must still be NaN or a positive speed that closes the balance"""
    g, d = c["pair"].split("/")
    b = wl.make_balance(g, d)
    E = np.asarray(c["E"], float)
    n = E.shape[0]
    lo, hi = np.full(n, 0.0), np.full(n, 1.0)
    found = np.zeros(n, dtype=bool)
    fac = np.ones(n)
    for _ in range(40):
        mid = 0.5 * (lo + hi)
        try:
            db = np.asarray(b.dissipation.bulk_rate(wl.build(c, E * mid[:, None, None])).values, float)
        except Exception:
            return None
        ok = (db < -1e-12) & (db > -5e-10)
        fac = np.where(ok & ~found, mid, fac)
        found |= ok
        too_strong = db <= -5e-10
        hi = np.where(too_strong, mid, hi)
        lo = np.where(~too_strong, mid, lo)
        if found.all():
            break
    if not found.any():
        return None
    c2 = dict(c)
    c2["E"] = E * np.where(found, fac, 1.0)[:, None, None]
    if c.get("dEdt") is not None:
        c2["dEdt"] = None
    c2["kind_note"] = "weakly-breaking"
    return c2


def run_shard(ctx, shard):
    rng = ctx.rng()
    for i in range(shard["n"]):
        c = make(rng, i + shard.get("index", 0))
        judge(ctx, c)
        if i % 3 == 2:
            # a second spectrum in the same process with the same numbers of bins and the same first/last frequency but
            # direction bins shifted by half a bin: nothing remembered from the first grid may be used for this one
            c3 = dict(c)
            c3["dir"] = (np.asarray(c["dir"], float) + 180.0 / len(c["dir"])) % 360.0
            c3["kind_note"] = "same-shape-grid-shifted-half-a-bin"
            ctx.count("C11.second_grid_of_the_same_shape")
            judge(ctx, c3)
        if i % 4 == 0 and c["kind"] in ("windsea", "young", "veering"):
            c2 = weaken(c)
            if c2 is not None:
                ctx.count("C11.weakly_breaking_versions_judged")
                judge(ctx, c2)


def replay(ctx, case):
    judge(ctx, case["gen"])
