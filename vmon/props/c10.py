"""C10 - roughness lengths satisfy their defining implicit equations."""
from __future__ import annotations

import numpy as np

from ..core import guarded
from .. import wavelab as wl

PROPERTY = "C10"
LEVEL = "exploration"
RULE = ("Charnock: U in [0.1,80] m/s (sorted sweeps and random arrays with NaNs), Charnock constants 0.005..0.04, with "
        "and without viscous term, scalar / ndarray / DataArray inputs; every returned z0 is inserted into the implicit "
        "equation. Janssen: C08 wind seas x winds (u10 and friction-velocity input); for every case the balance function "
        "F(z)=rho_a u*(z)^2 - stress(roughness_length=z) is scanned independently through the public stress() on 200 "
        "log-spaced z in (e^-20,1), one z per call; where F is defined everywhere and changes sign exactly once the "
        "returned roughness must satisfy |F(z0)| <= 1e-4 rho_a u*^2. distinct = (part, input kind, viscous?, spectrum "
        "kind, input type); non-trivial = finite roughness returned.")
ASSUMPTIONS = ["'a single root in the search interval' = F defined at all 200 scan points with exactly one sign change; "
               "other cases are reported, not judged", "kappa=0.4, g=9.81, nu_air=1.48e-5, rho_air=1.225 (defaults)"]
REQUIRED_MONITORS = ["C10.charnock:implicit-equation", "C10.charnock:drag==(kappa/ln(10/z0))^2",
                     "C10.charnock:monotone-in-U", "C10.charnock:NaN-in=>NaN-out", "C10.charnock:input-kinds-agree",
                     "C10.janssen:NaN-or-positive", "C10.janssen:stress-balance<=1e-4"]
REQUIRED_COUNTERS = {"C10.janssen_cases_judged": 8, "C10.charnock_scalar_inputs": 3}
TIMEOUT = {"quick": 1800, "thorough": 5400}
N = {"quick": (8, 12), "thorough": (14, 60)}
G, KAPPA, NU, RHO = 9.81, 0.4, 1.48e-5, 1.225


def plan(tier, seed):
    ns, per = N[tier]
    shards = [{"mode": "charnock", "n": 150 if tier == "quick" else 3000}]
    shards += [{"mode": "janssen", "n": per} for _ in range(ns)]
    return shards


# ------------------------------------------------------------------ Charnock
def judge_charnock(ctx, c):
    import xarray
    from ocean_science_utilities.wavephysics.roughness import (charnock_roughness_length_from_u10,
                                                               drag_coefficient_charnock)
    U = np.asarray(c["U"], float)
    alpha, cv, form = float(c["alpha"]), float(c["cv"]), c["form"]
    kw = {"charnock_constant": alpha, "viscous_constant": cv}
    if form == "scalar":
        arg = float(U.ravel()[0])
        ctx.count("C10.charnock_scalar_inputs")
    elif form == "dataarray":
        arg = xarray.DataArray(U, dims=["x"] if U.ndim == 1 else None)
    else:
        arg = U
    ctx.case(("charnock", form, cv > 0, c["ukind"]), nontrivial=bool(np.isfinite(U).any()),
             sample={"U": U.ravel()[:6], "alpha": alpha, "viscous_constant": cv, "form": form})
    wit = lambda: dict(c)  # noqa
    ok, z = guarded(ctx, "C10.no-exception", lambda: charnock_roughness_length_from_u10(arg, **dict(kw)), wit,
                    key=f"C10:charnock:exception:{form}")
    if not ok:
        return
    z0 = np.asarray(getattr(z, "values", z), float).reshape(np.shape(U) if form != "scalar" else ())
    Uv = U if form != "scalar" else np.asarray(arg)
    nanin = np.isnan(Uv)
    ctx.check("C10.charnock:NaN-in=>NaN-out", bool(np.array_equal(np.isnan(z0), nanin)), wit,
              {"U": Uv, "z0": z0}, key="C10:charnock:nan")
    fin = ~nanin & np.isfinite(z0)
    if fin.any():
        zz, uu = z0[fin], Uv[fin]
        ctx.check("C10.charnock:positive", bool(np.all((zz > 0) & (zz < 10))), wit, {"z0": zz}, key="C10:charnock:positive")
        ustar = KAPPA * uu / np.log(10.0 / zz)
        rhs = alpha * ustar ** 2 / G + cv * NU / ustar
        # bound from the solver's own stopping rule: a step smaller than rtol*max(|z0|, atol) with atol=rtol=1e-4;
        # the residual of x=F(x) at the returned iterate is the *next* step, which is not larger (+10 % margin)
        bound = 1.1e-4 * np.maximum(zz, 1e-4)
        res = np.abs(zz - rhs)
        ctx.check("C10.charnock:implicit-equation", bool(np.all(res <= bound)), wit,
                  {"max_residual_over_bound": float(np.max(res / bound)), "U": float(uu[np.argmax(res / bound)])},
                  key="C10:charnock:equation")
        ctx.ratio("C10.charnock:implicit-equation", float(np.max(res / bound)), 1.0)
    ok, cd = guarded(ctx, "C10.no-exception", lambda: drag_coefficient_charnock(arg, **dict(kw)), wit,
                     key=f"C10:charnock:exception:drag:{form}")
    if ok:
        cdv = np.asarray(getattr(cd, "values", cd), float).reshape(z0.shape)
        with np.errstate(invalid="ignore", divide="ignore"):
            want = (KAPPA / np.log(10.0 / z0)) ** 2
        ctx.close("C10.charnock:drag==(kappa/ln(10/z0))^2", cdv, want, atol=0, rtol=1e-12, case=wit, key="C10:charnock:drag")
        if c["ukind"] == "sweep" and cv == 0.0 and form != "scalar":
            ctx.check("C10.charnock:monotone-in-U", bool(np.all(np.diff(z0) > 0) and np.all(np.diff(cdv) > 0)), wit,
                      {"z0": z0[:8]}, key="C10:charnock:monotone")
    # the three input kinds give the same numbers
    if form == "ndarray" and U.ndim == 1 and U.size <= 12:
        okd, zd = guarded(ctx, "C10.no-exception",
                          lambda: charnock_roughness_length_from_u10(xarray.DataArray(U, dims=["x"]), **dict(kw)), wit,
                          key="C10:charnock:exception:dataarray")
        if okd:
            ctx.close("C10.charnock:input-kinds-agree", np.asarray(zd.values, float), z0, atol=0, rtol=1e-12, case=wit,
                      key="C10:charnock:kinds")
        for i in range(min(3, U.size)):
            if np.isnan(U[i]):
                continue
            oks, zs = guarded(ctx, "C10.no-exception", lambda: charnock_roughness_length_from_u10(float(U[i]), **dict(kw)),
                              lambda: dict(c, scalar_index=i), key="C10:charnock:exception:scalar")
            if oks:
                ctx.count("C10.charnock_scalar_inputs")
                # element-wise convergence: a scalar call may stop at a different iteration than the batch
                # (both satisfy the equation to the solver's tolerance 1.1e-4*max(z0,1e-4): they agree to twice that)
                ctx.close("C10.charnock:input-kinds-agree", np.asarray(getattr(zs, "values", zs), float).reshape(()),
                          z0[i], atol=2.2e-4 * max(float(z0[i]), 1e-4), rtol=0, case=lambda: dict(c, scalar_index=i),
                          key="C10:charnock:kinds")


def make_charnock(rng, i):
    ukind = ["sweep", "random", "random-nan", "single"][i % 4]
    if ukind == "sweep":
        U = np.sort(10 ** rng.uniform(-1, np.log10(80), int(rng.integers(5, 60))))
        U = np.unique(U)
    elif ukind == "single":
        U = np.array([10 ** rng.uniform(-1, np.log10(80))])
    else:
        U = 10 ** rng.uniform(-1, np.log10(80), int(rng.integers(1, 12)))
        if ukind == "random-nan":
            U[rng.integers(0, U.size)] = np.nan
    form = "scalar" if ukind == "single" else str(rng.choice(["ndarray", "dataarray"]))
    return {"part": "charnock", "U": U, "ukind": ukind, "alpha": float(rng.uniform(0.005, 0.04)),
            "cv": float(rng.choice([0.0, 0.0, 0.11])), "form": form}


# ------------------------------------------------------------------ Janssen
def judge_janssen(ctx, c):
    g, d = c["pair"].split("/")
    b = wl.make_balance(g, d, c.get("gen_params"))
    s = wl.build(c)
    n = np.asarray(c["E"]).shape[0]
    itype = c["input_type"]
    speed = np.asarray(c["u10"], float) * (0.035 if itype == "friction_velocity" else 1.0)
    sp, wd = wl.da(speed), wl.da(c["wdir"])
    wit = lambda: {"gen": c}  # noqa
    ok, z = guarded(ctx, "C10.no-exception", lambda: b.generation.roughness(sp, wd, s, wind_speed_input_type=itype), wit,
                    key="C10:janssen:exception")
    if not ok:
        return
    z0 = np.asarray(z.values, float)
    ctx.case(("janssen", c["kind"], itype, bool(c.get("gen_params"))), nontrivial=bool(np.isfinite(z0).any()),
             sample={"kind": c["kind"], "u10": c["u10"], "input_type": itype, "z0": z0})
    ctx.check("C10.janssen:NaN-or-positive", bool(np.all(np.isnan(z0) | ((z0 > 0) & np.isfinite(z0)))), wit, {"z0": z0},
              key="C10:janssen:positive")
    ctx.count("C10.janssen_nan_results", int(np.isnan(z0).sum()))
    P = b.generation._parameters
    kappa, elev, rho = P["vonkarman_constant"], P["elevation"], P["air_density"]
    zgrid = np.exp(np.linspace(-20, 0, 202)[1:-1])
    for i in range(n):
        si = wl.build(c, idx=[i])
        ui, wi = wl.da(speed[[i]]), wl.da(np.asarray(c["wdir"])[[i]])

        def F(zv):
            ust = speed[i] * kappa / np.log(elev / zv) if itype == "u10" else speed[i]
            st = float(b.generation.stress(si, ui, wi, roughness_length=wl.da([zv]), wind_speed_input_type=itype)["stress"].values[0])
            return rho * ust ** 2 - st, rho * ust ** 2
        vals = np.full(len(zgrid), np.nan)
        for j, zv in enumerate(zgrid):
            try:
                vals[j] = F(float(zv))[0]
            except Exception:
                vals[j] = np.nan
        defined = bool(np.all(np.isfinite(vals)))
        sg = np.sign(vals[np.isfinite(vals)])
        changes = int(np.sum(sg[1:] * sg[:-1] < 0))
        single = defined and changes == 1
        if not single:
            ctx.count("C10.janssen_cases_not_judged(F undefined somewhere or not exactly one sign change)")
            if np.isfinite(z0[i]):
                try:
                    r, sc = F(float(z0[i]))
                    ctx.count("C10.janssen_unjudged_residual_over_1e-4" if abs(r) > 1e-4 * sc else
                              "C10.janssen_unjudged_residual_within_1e-4")
                except Exception:
                    pass
            continue
        if not np.isfinite(z0[i]):
            ctx.count("C10.janssen_single_root_but_NaN_returned")
            continue
        ctx.count("C10.janssen_cases_judged")
        witi = lambda: {"gen": c, "point": i}  # noqa
        try:
            r, sc = F(float(z0[i]))
        except Exception as e:
            ctx.check("C10.janssen:stress-balance<=1e-4", False, witi, {"exception": repr(e)}, key="C10:janssen:balance")
            continue
        key = None
        if abs(r) > 1e-4 * sc:
            # mechanism classifier: did the solver stop at a stationary point (local extremum) of the balance function?
            key = "C10:janssen:balance:not-a-root"
            try:
                # a local extremum of F within a factor e^(+-0.5) of the returned value? (11 log-spaced samples)
                zz = float(z0[i]) * np.exp(np.linspace(-0.5, 0.5, 11))
                ff = np.array([F(float(v))[0] for v in zz])
                jmax, jmin = int(np.argmax(ff)), int(np.argmin(ff))
                if 0 < jmax < 10 or 0 < jmin < 10:
                    key = "C10:janssen:balance:converged-at-stationary-point"
            except Exception:
                pass
        ctx.check("C10.janssen:stress-balance<=1e-4", abs(r) <= 1e-4 * sc, witi,
                  {"z0": float(z0[i]), "residual_rel": abs(r) / sc}, key=key)
        ctx.ratio("C10.janssen:stress-balance<=1e-4", abs(r) / sc, 1e-4)
        if abs(r) <= 1e-4 * sc and i == 0:
            # warm start: the roughness for a slightly different wind (0.3 % more), started from this solution, must
            # satisfy ITS balance - a supplied first guess is a guess, not an answer
            sp2 = speed[i] * 1.003
            okw, zw = guarded(ctx, "C10.no-exception",
                              lambda: b.generation.roughness(wl.da([sp2]), wi, si, roughness_length_guess=wl.da([float(z0[i])]),
                                                             wind_speed_input_type=itype), witi, key="C10:janssen:exception")
            if okw and np.isfinite(float(zw.values[0])):
                zv = float(zw.values[0])
                ust2 = sp2 * kappa / np.log(elev / zv) if itype == "u10" else sp2
                try:
                    st2 = float(b.generation.stress(si, wl.da([sp2]), wi, roughness_length=wl.da([zv]), wind_speed_input_type=itype)["stress"].values[0])
                    r2, sc2 = rho * ust2 ** 2 - st2, rho * ust2 ** 2
                    ctx.count("C10.janssen_warm_started_solves_judged")
                    ctx.check("C10.janssen:stress-balance<=1e-4", abs(r2) <= 1e-4 * sc2, witi,
                              {"warm_start_from": float(z0[i]), "z0": zv, "wind": float(sp2), "residual_rel": abs(r2) / sc2},
                              key="C10:janssen:balance:warm-start")
                except Exception:
                    pass


def judge_janssen_history(ctx, c):
    """the same generation object and the same spectrum object: roughness(), update_parameters(), roughness() again
    with identical winds - the second answer must belong to the updated parameters (it must equal what a fresh object
    with those parameters returns for a fresh spectrum object, and differ from the first when the parameters matter)"""
    g, d = c["pair"].split("/")
    b = wl.make_balance(g, d, c.get("gen_params"))
    s = wl.build(c)
    itype = c["input_type"]
    speed = np.asarray(c["u10"], float) * (0.035 if itype == "friction_velocity" else 1.0)
    sp, wd = wl.da(speed), wl.da(c["wdir"])
    wit = lambda: {"gen": c, "history": True}  # noqa
    upd = dict(c["update"])
    ctx.case(("janssen-history", c["kind"], itype, tuple(sorted(upd))), nontrivial=True,
             sample={"kind": c["kind"], "update_parameters": upd, "input_type": itype})
    ok, z1 = guarded(ctx, "C10.no-exception", lambda: b.generation.roughness(sp, wd, s, wind_speed_input_type=itype), wit,
                     key="C10:janssen:exception")
    if not ok:
        return
    # typical use: the same spectra and winds are evaluated several times in a row
    try:
        b.generation.stress(s, sp, wd, wind_speed_input_type=itype)
    except Exception:
        # stress() without a supplied roughness may raise where the roughness has no solution; C10 is about the
        # roughness that roughness() returns, so this is counted, not judged
        ctx.count("C10.stress()_raised_in_history(not judged)")
    b.generation.update_parameters(upd)
    ok, z2 = guarded(ctx, "C10.no-exception", lambda: b.generation.roughness(sp, wd, s, wind_speed_input_type=itype), wit,
                     key="C10:janssen:exception")
    merged = dict(c.get("gen_params") or {})
    merged.update(upd)
    fresh = wl.make_balance(g, d, merged)
    okf, zf = guarded(ctx, "C10.no-exception", lambda: fresh.generation.roughness(sp, wd, wl.build(c), wind_speed_input_type=itype), wit,
                      key="C10:janssen:exception")
    if not (ok and okf):
        return
    a, f_ = np.asarray(z2.values, float), np.asarray(zf.values, float)
    ctx.count("C10.janssen_histories(update_parameters between two solves)")
    ctx.count("C10.janssen_history_points_where_the_update_matters", int(np.sum(np.isfinite(f_) & (np.abs(f_ - np.asarray(z1.values, float)) > 1e-6 * np.abs(f_)))))
    same = np.array_equal(np.isfinite(a), np.isfinite(f_)) and bool(np.all(np.abs(a - f_)[np.isfinite(f_)] <= 1e-9 * np.abs(f_[np.isfinite(f_)])))
    ctx.check("C10.janssen:after-update_parameters==fresh-object", same, wit, {"reused": a, "fresh": f_, "before_update": z1.values},
              key="C10:janssen:history:stale-after-update_parameters")


UPDATES = [{"growth_parameter_betamax": 1.2}, {"growth_parameter_betamax": 1.9, "wave_age_tuning_parameter": 0.008},
           {"viscous_stress_parameter": 0.1}, {"charnock_constant": 0.02, "growth_parameter_betamax": 1.7}]


def make_janssen(rng, i):
    c = wl.make_case(rng, kind=["windsea", "windsea", "mixed"][i % 3], npoints=int(rng.integers(1, 4)),
                     nd=int(rng.choice([24, 36])))
    c.update({"part": "janssen", "pair": "st4/st4", "input_type": "friction_velocity" if i % 4 == 3 else "u10",
              "gen_params": wl.GEN_PARAM_SETS[int(rng.integers(0, len(wl.GEN_PARAM_SETS)))] if i % 5 == 4 else None})
    return c


def run_shard(ctx, shard):
    rng = ctx.rng()
    if shard["mode"] == "charnock":
        for i in range(shard["n"]):
            judge_charnock(ctx, make_charnock(rng, i))
    else:
        for i in range(shard["n"]):
            c = make_janssen(rng, i + shard.get("index", 0))
            judge_janssen(ctx, c)
            if i % 2 == 0:
                judge_janssen_history(ctx, dict(c, update=UPDATES[int(rng.integers(0, len(UPDATES)))]))


def replay(ctx, case):
    if case.get("part") == "charnock":
        judge_charnock(ctx, case)
    elif case.get("history"):
        judge_janssen_history(ctx, case["gen"])
    else:
        judge_janssen(ctx, case["gen"])
