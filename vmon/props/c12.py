"""C12 - equilibrium-range wind estimate: closed form and direction conventions."""
from __future__ import annotations

import numpy as np

from ..core import guarded
from ..gens import spectra as gs

PROPERTY = "C12"
LEVEL = "exploration"
RULE = ("1D spectra with an analytic c*f^-4 range of random level c and direction (all quadrants) above a random "
        "transition frequency and a lower sub-range below it; random spectra (peak-method oracle only); NaN "
        "bins; layouts scalar/time/time_lat/flat; both methods, both direction conventions, non-default "
        "I/beta/kappa/Charnock/viscous parameters; 2D inputs (uniform direction grids) compared with their 1D "
        "reduction. distinct = (spectrum kind, layout, method, convention, params default?, NaN?); non-trivial = "
        "positive equilibrium level.")
ASSUMPTIONS = ["mean method judged only on spectra with an exact f^-4 range of >= 25 bins below fmax"]
REQUIRED_MONITORS = ["C12.ustar==8pi^3*Eeq/(4gIbeta)", "C12.Eeq==c(analytic tail)", "C12.u10==loglaw(charnock)",
                     "C12.direction==atan2(b1,a1)%360", "C12.direction in [0,360)", "C12.scale-linear",
                     "C12.2D==1D-reduction", "C12.convention:270-going_to"]
REQUIRED_REACH = ["windestimate.py:friction_velocity", "windestimate.py:estimate_u10_from_spectrum",
                  "windestimate.py:equilibrium_range_values", "roughness.py:charnock_roughness_length"]
TIMEOUT = {"quick": 600, "thorough": 2400}
N = {"quick": (8, 40), "thorough": (16, 500)}
G = 9.81
NU_AIR = 1.48e-5


def plan(tier, seed):
    ns, per = N[tier]
    return [{"n": per} for _ in range(ns)]


def make_case(rng):
    skind = str(rng.choice(["tail", "tail", "random", "tail2d", "random2d", "tailmin", "tailmin2d"]))
    layout = str(rng.choice(gs.LAYOUTS))
    lead = gs.lead_shape(rng, layout)
    nf = int(rng.integers(60, 130))
    f = np.linspace(rng.uniform(0.02, 0.05), rng.uniform(0.6, 1.2), nf)
    shape = lead + (nf,)
    if skind.startswith("tailmin"):
        # the shortest admissible range: exactly number_of_bins+1 (21) bins of c*f^-4 ending in the fmax (0.5 Hz)
        # bin, steeper than f^-4 on both sides - exactly one averaging window of the "mean" method fits
        c = 10 ** rng.uniform(-6, -3, lead + (1,))
        i_end = int(np.argmin(np.abs(f - 0.5)))
        i_start = i_end - 20
        shape_ = np.ones(nf)
        lo, hi = f < f[i_start], f > f[i_end]
        shape_[lo] = (f[lo] / f[i_start]) ** 30
        shape_[hi] = (f[hi] / f[i_end]) ** -3
        E = c * shape_ * f ** -4.0
        th = rng.uniform(-np.pi, np.pi, lead + (1,))
        r = rng.uniform(0.3, 0.95, lead + (1,))
        inr = (f >= f[i_start]) & (f <= f[i_end])
        a1 = np.where(inr, r * np.cos(th), rng.uniform(-0.5, 0.5, shape))
        b1 = np.where(inr, r * np.sin(th), rng.uniform(-0.5, 0.5, shape))
        extra = {"c": c[..., 0], "theta": np.degrees(th[..., 0])}
    elif skind.startswith("tail"):
        c = 10 ** rng.uniform(-6, -3, lead + (1,))
        # transition so that >= 25 bins lie between f_t and 0.5 Hz
        i_half = int(np.argmin(np.abs(f - 0.5)))
        it = rng.integers(2, max(3, i_half - 27), lead + (1,))
        ft = f[it]
        tail = c * f ** -4.0
        low = c * ft ** -4.0 * (f / ft) ** rng.uniform(1.0, 6.0, lead + (1,)) * rng.uniform(0.2, 0.95, lead + (1,))
        E = np.where(f >= ft, tail, low)
        th = rng.uniform(-np.pi, np.pi, lead + (1,))
        r = rng.uniform(0.3, 0.95, lead + (1,))
        a1 = np.where(f >= ft, r * np.cos(th), rng.uniform(-0.5, 0.5, shape))
        b1 = np.where(f >= ft, r * np.sin(th), rng.uniform(-0.5, 0.5, shape))
        extra = {"c": c[..., 0], "theta": np.degrees(th[..., 0])}
    else:
        _, E = gs.density_1d(rng, f, lead, None)
        E = E * 1e-2
        a1, b1, _, _ = gs.moments_in_disc(rng, shape)
        extra = {}
    a2, b2 = rng.uniform(-0.3, 0.3, shape), rng.uniform(-0.3, 0.3, shape)
    if skind.startswith("tail") and rng.uniform() < 0.3:
        # directions exactly on the axes (a1 or b1 exactly 0): going-to 0/90/180/270, coming-from 270/180/90/0 -
        # the places where "% 360" must return 0.0 and not 360.0
        q = rng.integers(0, 4, lead + (1,))
        rr = rng.uniform(0.3, 0.95, lead + (1,))
        ca = np.choose(q, [1.0, 0.0, -1.0, 0.0]) * rr
        sa = np.choose(q, [0.0, 1.0, 0.0, -1.0]) * rr
        intail = E * f ** 4.0 > 0.999999 * np.asarray(extra["c"])[..., None]
        a1 = np.where(intail, ca, a1)
        b1 = np.where(intail, sa, b1)
        extra["theta"] = (q[..., 0] * 90.0).astype(float)
    nank = "none"
    if not skind.startswith("tail") and rng.uniform() < 0.4:
        nank, E = gs.apply_nan(rng, E, str(rng.choice(["single", "run", "scatter"])))
    if skind == "tailmin" and rng.uniform() < 0.5:
        # a missing bin inside the shortest admissible range: every averaging window contains it (1D input only: in
        # the 1D reduction of a 2D spectrum a missing bin counts as zero energy, so the range is no longer c*f^-4)
        E = np.array(np.broadcast_to(E, shape), dtype=float)
        E[..., i_start + int(rng.integers(3, 18))] = np.nan
        nank = "inside-range"
    if skind.startswith("tail") and not skind.startswith("tailmin"):
        u = rng.uniform()
        if u < 0.25:
            # missing bins below the f^-4 range (outside it, but inside the searched band): the level is still c
            E = np.array(np.broadcast_to(E, shape), dtype=float)
            below = np.broadcast_to(f < np.broadcast_to(ft, lead + (1,)), shape)
            pick = below & (rng.uniform(0, 1, shape) < 0.35)
            if lead:
                # not in every member of the batch
                keep = rng.uniform(0, 1, lead + (1,)) < 0.6
                pick = pick & keep
            E[pick] = np.nan
            nank = "below-range"
        elif u < 0.5:
            # a record that was zero-padded above fmax (0.5 Hz): bins above fmax are outside the searched band
            E = np.array(np.broadcast_to(E, shape), dtype=float)
            E[..., f > 0.5 + 1e-9] = 0.0
            nank = "zero-above-fmax"
    case = {"kind": "1d", "layout": layout, "fkind": "uniform", "ekind": skind, "nankind": nank, "freq": f,
            "E": E, "a1": a1, "b1": b1, "a2": a2, "b2": b2}
    case.update(gs._lead_vars(rng, layout, lead, "inf"))
    case.update(extra)
    case["params"] = {}
    if rng.uniform() < 0.5:
        case["params"] = {"directional_spreading_constant": float(rng.uniform(1.5, 3.5)),
                          "phillips_constant_beta": float(rng.uniform(0.008, 0.02)),
                          "vonkarman_constant": float(rng.uniform(0.35, 0.45)),
                          "charnock_constant": float(rng.uniform(0.005, 0.04)),
                          "viscous_constant": float(rng.choice([0.0, 0.11]))}
    case["nd"] = int(rng.choice([24, 36, 72]))
    case["scale"] = float(rng.uniform(0.2, 5.0))
    return case


def to_2d(case):
    """a 2D spectrum whose 1D reduction has the case's e(f) and a mean direction from (a1,b1):
    cos-2s like distribution D = (1 + 2 r cos(theta-theta0))/360 (non-negative for r<=0.5)"""
    f = case["freq"]
    nd = case["nd"]
    d = np.arange(nd) * 360.0 / nd
    a1, b1 = np.asarray(case["a1"]), np.asarray(case["b1"])
    th = np.deg2rad(d)
    r = np.minimum(np.hypot(a1, b1), 0.49)
    th0 = np.arctan2(b1, a1)
    D = (1 + 2 * r[..., None] * np.cos(th - th0[..., None])) / 360.0
    E2 = np.asarray(case["E"])[..., None] * D
    c2 = {k: v for k, v in case.items() if k not in ("a1", "b1", "a2", "b2")}
    c2.update({"kind": "2d", "dir": d, "dkind": "uniform0", "E": E2})
    return c2


def oracle_peak(case, power=4):
    E = np.asarray(case["E"], float)
    f = case["freq"]
    sc = np.where(np.isnan(E), 0.0, E * f ** power)
    idx = np.argmax(sc, axis=-1)
    e = np.take_along_axis(sc, idx[..., None], -1)[..., 0]
    a1 = np.take_along_axis(np.asarray(case["a1"]), idx[..., None], -1)[..., 0]
    b1 = np.take_along_axis(np.asarray(case["b1"]), idx[..., None], -1)[..., 0]
    return e, a1, b1


def out_shape(case):
    lead = np.asarray(case["E"]).shape[:-1]
    if case["layout"] == "flat":
        return (int(np.prod(lead)),)
    return lead


def judge(ctx, case):
    from ocean_science_utilities.wavephysics.windestimate import estimate_u10_from_spectrum, friction_velocity
    s = gs.build(case)
    P = case["params"]
    I = P.get("directional_spreading_constant", 2.5)
    beta = P.get("phillips_constant_beta", 0.012)
    kappa = P.get("vonkarman_constant", 0.4)
    alpha = P.get("charnock_constant", 0.012)
    cv = P.get("viscous_constant", 0.0)
    tail = case["ekind"].startswith("tail")
    shp = out_shape(case)
    for method in ("peak", "mean"):
        if method == "mean" and not tail:
            continue
        for conv in ("going_to_counter_clockwise_east", "coming_from_clockwise_north"):
            wit = lambda: {"gen": case, "method": method, "conv": conv}  # noqa
            ok, ds = guarded(ctx, "C12.no-exception",
                             lambda: estimate_u10_from_spectrum(s, method=method, direction_convention=conv, **P),
                             wit, key="C12:exception")
            if not ok:
                continue
            us = np.asarray(ds["friction_velocity"].values, float)
            dr = np.asarray(ds["direction"].values, float)
            u10 = np.asarray(ds["u10"].values, float)
            if us.shape != shp:
                ctx.check("C12.shape", False, wit, {"got": us.shape, "want": shp}, key="C12:shape")
                continue
            if tail:
                eeq = np.asarray(case["c"], float).reshape(shp)
                dirw = (np.asarray(case["theta"], float).reshape(shp)) % 360
            else:
                e, a1, b1 = oracle_peak(case)
                eeq = e.reshape(shp)
                dirw = (np.degrees(np.arctan2(b1, a1)) % 360).reshape(shp)
            ctx.case((case["ekind"], case["layout"], method, conv, bool(P), case["nankind"]),
                     nontrivial=bool(np.any(eeq > 0)),
                     sample={"freq": case["freq"][:6], "layout": case["layout"], "method": method, "conv": conv,
                             "Eeq": eeq, "params": P})
            want_us = 8 * np.pi ** 3 * eeq / (4 * G * I * beta)
            name = "C12.Eeq==c(analytic tail)" if tail else "C12.ustar==8pi^3*Eeq/(4gIbeta)"
            ctx.close(name, us, want_us, atol=0, rtol=1e-9, case=wit, key="C12:ustar")
            if tail:
                ctx.close("C12.ustar==8pi^3*Eeq/(4gIbeta)", us, want_us, atol=0, rtol=1e-9, case=wit, key="C12:ustar")
            # log law with the *returned* friction velocity
            with np.errstate(divide="ignore", invalid="ignore"):
                z0 = alpha * us ** 2 / G + np.where(us > 0, cv * NU_AIR / us, 0.0)
                want_u10 = us / kappa * np.log(10.0 / z0)
            pos = us > 0
            ctx.close("C12.u10==loglaw(charnock)", u10[pos], want_u10[pos], atol=0, rtol=1e-10, case=wit, key="C12:u10")
            if conv == "coming_from_clockwise_north":
                dirw = (270.0 - dirw) % 360
            okd = pos & ~np.isnan(dirw)
            dev = np.abs((dr[okd] - dirw[okd] + 180) % 360 - 180)
            ctx.check("C12.direction==atan2(b1,a1)%360", bool(np.all(dev <= 1e-7)), wit,
                      {"got": dr, "want": dirw}, key="C12:direction")
            ctx.check("C12.direction in [0,360)", bool(np.all((dr[okd] >= 0) & (dr[okd] < 360))), wit,
                      {"got": dr}, key="C12:direction:range")
        # conventions relate as (270 - going_to) % 360
        ok1, a = guarded(ctx, "C12.no-exception", lambda: estimate_u10_from_spectrum(s, method=method, **P),
                         lambda: {"gen": case}, key="C12:exception")
        ok2, b = guarded(ctx, "C12.no-exception", lambda: estimate_u10_from_spectrum(
            s, method=method, direction_convention="coming_from_clockwise_north", **P), lambda: {"gen": case},
            key="C12:exception")
        if ok1 and ok2:
            ga, gb = np.asarray(a["direction"].values, float), np.asarray(b["direction"].values, float)
            fin = ~np.isnan(ga)
            dev = np.abs((gb[fin] - (270.0 - ga[fin])) % 360)
            dev = np.minimum(dev, 360 - dev)
            ctx.check("C12.convention:270-going_to", bool(np.all(dev <= 1e-9)), lambda: {"gen": case, "method": method},
                      {"going_to": ga, "coming_from": gb}, key="C12:convention")
            ctx.close("C12.convention:270-going_to", b["u10"].values, a["u10"].values, atol=0, rtol=0,
                      case=lambda: {"gen": case, "method": method}, key="C12:convention")
        # scaling
        cfac = case["scale"]
        sc = s.multiply(np.full(s.shape(), cfac))
        ok3, fs = guarded(ctx, "C12.no-exception", lambda: friction_velocity(sc, method=method), lambda: {"gen": case},
                          key="C12:exception")
        ok4, f0 = guarded(ctx, "C12.no-exception", lambda: friction_velocity(s, method=method), lambda: {"gen": case},
                          key="C12:exception")
        if ok3 and ok4:
            ctx.close("C12.scale-linear", fs["friction_velocity"].values, cfac * f0["friction_velocity"].values,
                      atol=0, rtol=1e-9, case=lambda: {"gen": case, "method": method, "c": cfac}, key="C12:scale")
    # one object asked twice: a "peak" estimate followed by a "mean" estimate must give what a fresh object gives
    if tail:
        sh = gs.build(case)
        okp, _ = guarded(ctx, "C12.no-exception", lambda: estimate_u10_from_spectrum(sh, method="peak", **P),
                         lambda: {"gen": case, "history": True}, key="C12:exception")
        okm, mh = guarded(ctx, "C12.no-exception", lambda: estimate_u10_from_spectrum(sh, method="mean", **P),
                          lambda: {"gen": case, "history": True}, key="C12:exception")
        okf, mf = guarded(ctx, "C12.no-exception", lambda: estimate_u10_from_spectrum(gs.build(case), method="mean", **P),
                          lambda: {"gen": case, "history": True}, key="C12:exception")
        if okp and okm and okf:
            ctx.count("C12.histories(peak then mean on one object)")
            same = all(np.array_equal(np.asarray(mh[v].values), np.asarray(mf[v].values), equal_nan=True)
                       for v in ("friction_velocity", "u10", "direction"))
            ctx.check("C12.history==fresh-object", bool(same), lambda: {"gen": case, "history": True},
                      {"after_peak_estimate": mh["friction_velocity"].values, "fresh_object": mf["friction_velocity"].values},
                      key="C12:history:mean-after-peak")
    # 2D input == its 1D reduction
    if case["ekind"].endswith("2d"):
        c2 = to_2d(case)
        s2 = gs.build(c2)
        ok, s1 = guarded(ctx, "C12.no-exception", lambda: s2.as_frequency_spectrum(), lambda: {"gen": case}, key="C12:exception")
        for method in ("peak", "mean") if tail else ("peak",):
            okA, A = guarded(ctx, "C12.no-exception", lambda: estimate_u10_from_spectrum(s2, method=method, **P),
                             lambda: {"gen": case, "twoD": True}, key="C12:exception")
            okB, B = guarded(ctx, "C12.no-exception", lambda: estimate_u10_from_spectrum(s1, method=method, **P),
                             lambda: {"gen": case, "twoD": True}, key="C12:exception")
            if okA and okB:
                for v in ("friction_velocity", "u10", "direction"):
                    ctx.close("C12.2D==1D-reduction", A[v].values, B[v].values, atol=1e-12, rtol=1e-12,
                              case=lambda: {"gen": case, "twoD": True, "method": method}, key="C12:2d")
                # and the 2D answer follows the closed form too
                if tail:
                    want = 8 * np.pi ** 3 * np.asarray(case["c"], float).reshape(shp) / (4 * G * I * beta)
                    ctx.close("C12.Eeq==c(analytic tail)", A["friction_velocity"].values, want, atol=0, rtol=1e-9,
                              case=lambda: {"gen": case, "twoD": True, "method": method}, key="C12:ustar")
                    dirw = np.asarray(case["theta"], float).reshape(shp) % 360
                    dev = np.abs((np.asarray(A["direction"].values) - dirw + 180) % 360 - 180)
                    ctx.check("C12.direction==atan2(b1,a1)%360", bool(np.all(dev <= 1e-6)),
                              lambda: {"gen": case, "twoD": True, "method": method},
                              {"got": A["direction"].values, "want": dirw}, key="C12:direction")


def run_shard(ctx, shard):
    rng = ctx.rng()
    for _ in range(shard["n"]):
        judge(ctx, make_case(rng))


def replay(ctx, case):
    judge(ctx, case["gen"])
