"""C19 - file cache: failed or interrupted downloads never poison the cache (fault enumeration)."""
from __future__ import annotations

import itertools
import json
import os
import subprocess
import sys
import warnings

import numpy as np

from .. import cachelab as cl

PROPERTY = "C19"
LEVEL = "fault_enumeration"
RULE = ("bounded enumeration: every history of length <= 3 (quick 2) over {get A, get [A,B], get [A,B,C], reopen} x "
        "every fault kind {not-found, exception before any byte, exception after half the bytes are on disk, exception "
        "in post-processing, validation rejection (+ failing re-fetch)} x every download position of every request x "
        "{tolerant, strict} x {sequential, parallel (with delays so the failing download finishes first or last)}, "
        "each followed by (i) retry in the same session and (ii) reopening a new FileCache on the directory and "
        "requesting every URI; plus crash points: the n-th executed line of cache_object.py/remote_resources.py (all n) "
        "raises (exception-style crash) and, in a subprocess, os._exit(137) (true crash) - always followed by reopen; "
        "plus parallel requests of 6..12 URIs (several ThreadPool chunks) with not-found URIs and per-URI delays that "
        "make later chunks complete first; plus the built-in https:// (requests.api.get replaced by an in-memory fake: "
        "404/403/500/503/connection error) and file:// (missing source file) resources. "
        "distinct = (history, op index, fault kind, position, mode) ; non-trivial = a fault or crash was actually "
        "delivered (resource/monitor log).")
ASSUMPTIONS = ["a crash is followed by a new FileCache on the same directory (no other recovery step exists)",
               "files named '<cache file>.<suffix>' are the cache's own temporaries, not cache entries"]
EXHAUSTIVE = {"quick": True, "thorough": True}
REQUIRED_MONITORS = ["C19.fault:request-omits-or-raises", "C19.fault:others-intact", "C19.retry:fetched-afresh",
                     "C19.retry:returned-bytes", "C19.reopen:served-bytes==resource-bytes",
                     "C19.reopen:len(cache)==cache-files-on-disk", "C19.validation:rejected-entry-refetched",
                     "C19.crash:reopen-serves-only-complete-files", "C19.exit-crash:reopen-serves-only-complete-files"]
REQUIRED_REACH = ["remote_resources.py:RemoteResourceHTTPS.download.<locals>._download_file_from_https",
                  "remote_resources.py:RemoteResourceLocal.download.<locals>._copy_file", "cache_object.py:_download_from_resources", "cache_object.py:FileCache.get_cache_misses",
                  "cache_object.py:FileCache._initialize_cache"]
REQUIRED_COUNTERS = {"C19.faults_delivered": 20, "C19.crash_points": 50, "C19.exit_crashes": 3,
                     "C19.bigreq_completion_order_differs_from_request_order": 1, "C19.builtin_https_faults": 10}
TIMEOUT = {"quick": 900, "thorough": 3600}
OPS = {"gA": ["A"], "gAB": ["A", "B"], "gABC": ["A", "B", "C"], "reopen": None,
       # the same URI twice in one request (e.g. a list assembled from overlapping queries)
       "gABA": ["A", "B", "A"]}
FAULTS = ["notfound", "raise-before", "raise-half", "postprocess", "validation", "validation+notfound",
          "validation-after-accept"]
MAXLEN = {"quick": 2, "thorough": 4}
ALL = ["A", "B", "C"]
LIMIT = 10 ** 6
PP_MARK = b"#post-processed"


class SimulatedCrash(Exception):
    pass


def plan(tier, seed):
    n = 12
    shards = [{"mode": "faults", "of": n, "part": i, "maxlen": MAXLEN[tier]} for i in range(n)]
    shards += [{"mode": "crash", "history": h, "parallel": p}
               for h in (["gABC"], ["gA", "gABC"], ["gAB", "reopen", "gABC"]) for p in (False, True)]
    shards += [{"mode": "exit", "n": 6 if tier == "quick" else 40}]
    shards += [{"mode": "bigreq", "n": 12 if tier == "quick" else 120}, {"mode": "builtin"}]
    return shards


# ------------------------------------------------------------------ fault runs
def directive_uri(key, fault):
    u = cl.uri(key)
    if fault == "postprocess":
        return "postprocess=pp:" + u
    if fault.startswith("validation"):
        return "validate=vv:" + u
    return u


def install_directives(cache, state):
    def pp(path):
        k = state.get("pp_target")
        if k and os.path.basename(path).startswith(cl.expected_name(k)):
            state["pp_hit"] = True
            raise cl.Boom("post-processing failed")
        # a successful post-processing step marks the file, so that a file served without having been
        # post-processed (a "rejected" file) is distinguishable from a processed one
        with open(path, "ab") as fh:
            fh.write(PP_MARK)
        return None

    def vv(path):
        k = state.get("vv_target")
        if k and os.path.basename(path) == cl.expected_name(k):
            state["vv_hit"] = True
            return False
        return True
    try:
        cache.set_directive_function("postprocess", "pp", pp)
        cache.set_directive_function("validate", "vv", vv)
    except ValueError:
        pass


def verify_reopen(ctx, lab, wit, tag, prop="C19", postprocess=False, keys=None, expect=None):
    """new FileCache on the directory, request every URI (with the post-processing directive when the history
    used it: every served file must then be a *post-processed* one)"""
    lab.plan.clear()
    keys = keys or ALL
    try:
        with warnings.catch_warnings():
            warnings.simplefilter("ignore")
            cache = lab.open()
            if postprocess:
                install_directives(cache, {})
                paths = cache[["postprocess=pp:" + cl.uri(k) for k in keys]]
            else:
                paths = cache[[cl.uri(k) for k in keys]]
    except Exception as e:
        ctx.check(f"{prop}.{tag}", False, wit, {"exception-on-reopen": repr(e)}, key=f"{prop}:{tag}:exception")
        return
    ok = len(paths) == len(keys)
    detail = None
    for k, p in zip(keys, paths):
        want = (expect(k) if expect else cl.content(k, lab.version[0] if False else "")) + (PP_MARK if postprocess else b"")
        if expect is None and lab.version[0]:
            # keys never fetched before the version change are fetched now
            want = None
        if want is None:
            got_ = cl.read_noatime(p) if os.path.exists(p) else None
            okk = got_ in (cl.content(k) + (PP_MARK if postprocess else b""), cl.content(k, lab.version[0]) + (PP_MARK if postprocess else b""))
        else:
            okk = os.path.exists(p) and cl.read_noatime(p) == want
        if not okk:
            ok = False
            size = os.path.getsize(p) if os.path.exists(p) else None
            detail = {"key": k, "served_size": size, "postprocess": postprocess,
                      "served_is_stale_version": bool(os.path.exists(p) and cl.read_noatime(p) == cl.content(k) + (PP_MARK if postprocess else b""))}
    ctx.check(f"{prop}.{tag}", ok, wit, detail, key=f"{prop}:{tag}:poisoned")
    files = lab.disk_cache_files()
    ctx.check(f"{prop}.reopen:len(cache)==cache-files-on-disk", len(cache) == len(files), wit,
              {"len": len(cache), "files": len(files)}, key=f"{prop}:reopen:len")


def fault_run(ctx, hist, op_index, pos, fault, strict, parallel, continuation, work):
    """execute hist; at op op_index inject `fault` on the pos-th *miss* of that request"""
    wit = {"history": hist, "op": op_index, "pos": pos, "fault": fault, "strict": strict, "parallel": parallel,
           "continuation": continuation}
    root = os.path.join(work, "cache")
    # delays: make the failing download finish first (even pos) or last (odd pos) in parallel mode
    target_box = {}
    delays = (lambda key: (0.0 if (key == target_box.get("k")) == (pos % 2 == 0) else 0.01)) if parallel else None
    lab = cl.Lab(ctx, root, LIMIT, parallel, "C19", wit, delays=delays, allow_missing=not strict)
    state = {}
    mark = PP_MARK if fault == "postprocess" else b""
    pfx = "postprocess=pp:" if fault == "postprocess" else ""
    refetched_v2 = set()  # keys that must hold the resource's *new* content

    def want(k):
        return cl.content(k, "v2" if k in refetched_v2 else "") + mark
    delivered = False
    try:
        cache = lab.open()
        install_directives(cache, state)
        cached = set()
        for i, sym in enumerate(hist):
            keys = OPS[sym]
            if keys is None:
                cache = lab.open()
                install_directives(cache, state)
                continue
            if i != op_index:
                with warnings.catch_warnings():
                    warnings.simplefilter("ignore")
                    cache[[("postprocess=pp:" if fault == "postprocess" else "") + cl.uri(k) for k in keys]]
                cached |= set(keys)
                continue
            # ---- the faulty request
            if fault.startswith("validation"):
                cands = [k for k in keys if k in cached]
            else:
                cands = [k for k in keys if k not in cached]
            if pos >= len(cands):
                return False
            target = cands[pos]
            target_box["k"] = target
            if fault == "validation-after-accept":
                # the same validator has accepted this very entry in an earlier request of the session (a hit);
                # then the remote object changes and the validator rejects: the entry must be fetched afresh
                with warnings.catch_warnings():
                    warnings.simplefilter("ignore")
                    cache[[directive_uri(target, fault)]]
                ctx.count("C19.validator_accepted_before_rejecting")
                fault = "validation"
            lab.log.clear()
            if fault in ("notfound", "raise-before", "raise-half"):
                lab.plan[target] = fault
            elif fault == "postprocess":
                state["pp_target"] = target
            elif fault == "validation":
                state["vv_target"] = target
                lab.version[0] = "v2"  # the remote object changed: the rejected local copy is stale
            elif fault == "validation+notfound":
                state["vv_target"] = target
                lab.plan[target] = "notfound"
                lab.version[0] = "v2"
            uris = [directive_uri(k, fault) if (k == target or fault == "postprocess") else cl.uri(k) for k in keys]
            raised, paths = None, None
            try:
                with warnings.catch_warnings():
                    warnings.simplefilter("ignore")
                    paths = cache[uris]
            except Exception as e:
                raised = e
                cl.quiesce()
            evs = [e[0] for e in lab.log if e[1] == target]
            if fault in ("notfound", "raise-before", "raise-half"):
                delivered = fault in evs
            elif fault == "postprocess":
                delivered = bool(state.get("pp_hit"))
            elif fault == "validation":
                delivered = bool(state.get("vv_hit"))
            else:
                delivered = bool(state.get("vv_hit")) and "notfound" in evs
            if not delivered and fault == "validation":
                # the request carried the validation directive for an entry that is in the cache, but the validation
                # function was never consulted: whatever it would have rejected is served as a hit
                ctx.check("C19.validation:rejected-entry-refetched", False, wit,
                          {"validator_consulted": False, "raised": repr(raised)}, key="C19:validation:not-consulted")
                return True
            if not delivered:
                ctx.count("C19.faults_not_delivered")
                return False
            ctx.count("C19.faults_delivered")
            ctx.count(f"C19.fault:{fault}")
            if fault.startswith("validation"):
                refetched_v2.add(target)  # rejected: whatever is served for it from now on must be a fresh fetch
            refetched_v2.update(e[1] for e in lab.log if e[0] == "done" and len(e) > 3 and e[3] == "v2")
            # ---- judge the faulty request itself
            if fault == "validation":
                refetched = "start" in evs
                good = (raised is None and paths is not None and len(paths) == len(keys)
                        and all(cl.read_noatime(p) == want(k) for k, p in zip(keys, paths)))
                ctx.check("C19.validation:rejected-entry-refetched", bool(refetched and good), wit,
                          {"refetched": refetched, "raised": repr(raised)}, key="C19:validation")
            else:
                tolerant_nf = fault in ("notfound", "validation+notfound") and not strict
                if tolerant_nf:
                    others = [k for k in keys if k != target]
                    good = (raised is None and paths is not None and len(paths) == len(others)
                            and [os.path.basename(p) for p in paths] == [cl.expected_name(k) for k in others])
                    ctx.check("C19.fault:request-omits-or-raises", bool(good), wit,
                              {"raised": repr(raised), "paths": paths and [os.path.basename(p) for p in paths],
                               "expected": [cl.expected_name(k) for k in others]}, key="C19:fault:omit")
                    if good:
                        for k, p in zip(others, paths):
                            ctx.check("C19.fault:others-intact", os.path.exists(p) and cl.read_noatime(p) == want(k),
                                      wit, {"key": k}, key="C19:fault:others")
                else:
                    ctx.check("C19.fault:request-omits-or-raises", raised is not None, wit,
                              {"paths": paths and [os.path.basename(p) for p in paths]}, key="C19:fault:raise")
            # previously cached URIs remain intact
            for k in cached:
                if k == target and fault.startswith("validation"):
                    continue
                p = os.path.join(root, cl.expected_name(k))
                ctx.check("C19.fault:others-intact", os.path.exists(p) and cl.read_noatime(p) == want(k), wit,
                          {"key": k, "previously-cached": True}, key="C19:fault:cached")
            # the failed URI must not be served as a hit now
            state.clear()
            lab.plan.clear()
            if continuation == "retry":
                lab.log.clear()
                raised2, paths2 = None, None
                try:
                    with warnings.catch_warnings():
                        warnings.simplefilter("ignore")
                        if pfx:
                            install_directives(cache, state)
                        paths2 = cache[[pfx + cl.uri(k) for k in keys]]
                except Exception as e:
                    raised2 = e
                started = [e[1] for e in lab.log if e[0] == "start"]
                if fault != "validation":
                    ctx.check("C19.retry:fetched-afresh", target in started, wit,
                              {"contacted": started, "target": target, "raised": repr(raised2)}, key="C19:retry:afresh")
                refetched_v2.update(e[1] for e in lab.log if e[0] == "done" and len(e) > 3 and e[3] == "v2")
                good = raised2 is None and paths2 is not None and len(paths2) == len(keys) and all(
                    os.path.exists(p) and cl.read_noatime(p) == want(k) for k, p in zip(keys, paths2))
                ctx.check("C19.retry:returned-bytes", bool(good), wit, {"raised": repr(raised2)}, key="C19:retry:bytes")
                files = lab.disk_cache_files()
                ctx.check("C19.reopen:len(cache)==cache-files-on-disk", len(cache) == len(files), wit,
                          {"len": len(cache), "files": len(files), "where": "after retry"}, key="C19:retry:len")
            else:
                if raised is None:
                    # the request returned normally (tolerant mode): entries and directory must agree. After a
                    # raised request complete files of *other* URIs may legitimately be on disk unregistered.
                    files = lab.disk_cache_files()
                    ctx.check("C19.reopen:len(cache)==cache-files-on-disk", len(cache) == len(files), wit,
                              {"len": len(cache), "files": len(files), "where": "after fault"}, key="C19:fault:len")
                verify_reopen(ctx, lab, wit, "reopen:served-bytes==resource-bytes", postprocess=bool(pfx),
                              expect=lambda k: cl.content(k, "v2" if (lab.version[0] == "v2" and (k in refetched_v2 or k not in cached)) else ""))
            return True
    except Exception as e:
        import traceback
        ctx.check("C19.no-harness-surprise", False, wit, {"exception": repr(e), "traceback": traceback.format_exc(limit=8)},
                  key="C19:exception:" + type(e).__name__)
    finally:
        lab.close()
    return delivered


def enumerate_fault_runs(maxlen):
    for L in range(1, maxlen + 1):
        for hist in itertools.product(list(OPS), repeat=L):
            for i, sym in enumerate(hist):
                if OPS[sym] is None:
                    continue
                for pos in range(len(OPS[sym])):
                    for fault in FAULTS:
                        for strict in (False, True):
                            for parallel in (False, True):
                                for cont in ("retry", "reopen"):
                                    yield list(hist), i, pos, fault, strict, parallel, cont


# ------------------------------------------------------------------ crash points (exception style, in process)
class LineCrasher:
    def __init__(self):
        self.mon = sys.monitoring
        self.tool = self.mon.DEBUGGER_ID
        self.count = 0
        self.arm = None
        self.where = None
        self.files = None
        self.active = False

    def start(self):
        from ocean_science_utilities.filecache import cache_object, remote_resources
        self.files = {cache_object.__file__, remote_resources.__file__}
        self.mon.use_tool_id(self.tool, "vmon-crash")
        self.mon.register_callback(self.tool, self.mon.events.LINE, self._line)
        self.mon.set_events(self.tool, self.mon.events.LINE)
        self.active = True

    def _line(self, code, line):
        if code.co_filename not in self.files:
            return self.mon.DISABLE
        if self.arm is None:
            return None
        self.count += 1
        if self.count == self.arm:
            self.where = f"{os.path.basename(code.co_filename)}:{code.co_qualname}:{line}"
            self.arm = None
            raise SimulatedCrash(self.where)
        return None

    def stop(self):
        if self.active:
            self.mon.set_events(self.tool, 0)
            self.mon.register_callback(self.tool, self.mon.events.LINE, None)
            self.mon.free_tool_id(self.tool)
            self.active = False


def crash_runs(ctx, hist, parallel, work):
    crasher = LineCrasher()
    crasher.start()
    try:
        # dry run: count line events of the last request
        def run(arm):
            wit = {"crash": True, "history": hist, "parallel": parallel, "n": arm}
            root = os.path.join(work, "cache")
            lab = cl.Lab(ctx, root, LIMIT, parallel, "C19", wit)
            crashed = None
            try:
                cache = lab.open()
                for i, sym in enumerate(hist):
                    keys = OPS[sym]
                    last = i == len(hist) - 1
                    if last:
                        crasher.count = 0
                        crasher.arm = arm if arm else 10 ** 9
                    try:
                        if keys is None:
                            cache = lab.open()
                        else:
                            with warnings.catch_warnings():
                                warnings.simplefilter("ignore")
                                cache[[cl.uri(k) for k in keys]]
                    except SimulatedCrash as e:
                        crashed = str(e)
                        cl.quiesce()
                    except Exception as e:  # crash surfaced as another exception type (e.g. wrapped)
                        crashed = "other:" + repr(e)[:80]
                        cl.quiesce()
                    finally:
                        if last:
                            n_events = crasher.count
                            crasher.arm = None
                if arm:
                    if crashed:
                        ctx.count("C19.crash_points")
                        ctx.observe("crash location (file:function:line)", crashed)
                        fn = crashed.split(":")[1] if ":" in crashed else crashed
                        ctx.count(f"C19.crash_in:{fn}")
                        ctx.case(("crash", tuple(hist), parallel, arm), nontrivial=True,
                                 sample={"history": hist, "parallel": parallel, "n": arm, "at": crashed} if arm % 97 == 1 else None)
                        verify_reopen(ctx, lab, wit, "crash:reopen-serves-only-complete-files")
                return n_events
            finally:
                crasher.arm = None
                lab.close()
        total = run(0)
        ctx.count("C19.line_events_in_request", total)
        for n in range(1, total + 1):
            run(n)
    finally:
        crasher.stop()


# ------------------------------------------------------------------ true crashes (subprocess, os._exit)
CHILD = r"""
import json, os, sys, warnings
sys.path.insert(0, {verif!r}); sys.path.insert(0, os.path.join({verif!r}, ".deps"))
spec = json.loads(sys.argv[1])
from vmon import cachelab as cl
from ocean_science_utilities.filecache.cache_object import FileCache
from ocean_science_utilities.filecache import cache_object, remote_resources
log = []
if spec["kind"] == "exit-half":
    real = cl.make_resource
    def _patched(log, plan=None, delays=None, salt=""):
        res = real(log, plan, delays, salt)
        dl = res.download()
        class R(type(res)):
            def download(self):
                def f(u, fp):
                    key = u.rsplit("/", 1)[1]
                    if key == spec["target"]:
                        data = cl.content(key)
                        with open(fp, "wb") as fh:
                            fh.write(data[: len(data) // 2]); fh.flush(); os.fsync(fh.fileno())
                            os._exit(137)
                    return dl(u, fp)
                return f
        return R()
    res = _patched(log)
else:
    res = cl.make_resource(log)
    files = {{cache_object.__file__, remote_resources.__file__}}
    mon = sys.monitoring; tool = mon.DEBUGGER_ID; mon.use_tool_id(tool, "exit")
    state = {{"n": 0, "armed": False}}
    def line(code, ln):
        if code.co_filename not in files: return mon.DISABLE
        if state["armed"]:
            state["n"] += 1
            if state["n"] == spec["n"]:
                os._exit(137)
    mon.register_callback(tool, mon.events.LINE, line); mon.set_events(tool, mon.events.LINE)
warnings.simplefilter("ignore")
cache = FileCache(spec["root"], 1e-3, resources=[res], parallel=spec["parallel"])
cache.disable_progress_bar = True
for i, keys in enumerate(spec["history"]):
    if i == len(spec["history"]) - 1 and spec["kind"] != "exit-half":
        state["armed"] = True
    cache[[cl.uri(k) for k in keys]]
os._exit(0)
"""


def exit_runs(ctx, n, work):
    rng = ctx.rng()
    from ..core import VERIF
    for i in range(n):
        kind = "exit-half" if i % 2 == 0 else "exit-line"
        hist = [["A"], ["A", "B", "C"]] if rng.uniform() < 0.5 else [["A", "B", "C"]]
        parallel = bool(rng.uniform() < 0.5)
        spec = {"kind": kind, "history": hist, "parallel": parallel, "root": os.path.join(work, "cache"),
                "target": str(rng.choice(["B", "C"])), "n": int(rng.integers(1, 150))}
        wit = {"exit": spec}
        lab = cl.Lab(ctx, spec["root"], LIMIT, parallel, "C19", wit)
        try:
            r = subprocess.run([sys.executable, "-c", CHILD.format(verif=VERIF), json.dumps(spec)], capture_output=True,
                               text=True, timeout=120, env=dict(os.environ))
            if r.returncode == 137:
                ctx.count("C19.exit_crashes")
                ctx.case(("exit", kind, parallel, len(hist)), nontrivial=True, sample=spec if i < 2 else None)
                leftovers = cl.listing(spec["root"])
                ctx.count("C19.exit_leftover_files", len(leftovers))
                verify_reopen(ctx, lab, wit, "exit-crash:reopen-serves-only-complete-files")
            elif r.returncode != 0:
                ctx.note("child failed: " + r.stderr[-300:])
        finally:
            lab.close()


# ------------------------------------------------------------------ large parallel requests (several pool chunks)
BIG = ["A", "B", "C", "D", "E", "F", "G", "H", "I", "J", "K", "L"]


def bigreq_run(ctx, c, work):
    """one request of 6..12 URIs in parallel tolerant mode; some are not found; per-URI delays make later
    work items (and later pool chunks) complete before earlier ones"""
    keys, missing, slow = c["keys"], set(c["missing"]), set(c["slow"])
    wit = {"bigreq": c}
    root = os.path.join(work, "cache")
    delays = lambda key: (0.03 if key in slow else 0.0)  # noqa
    lab = cl.Lab(ctx, root, LIMIT, True, "C19", wit, delays=delays, allow_missing=True)
    try:
        cache = lab.open()
        for k in missing:
            lab.plan[k] = "notfound"
        with warnings.catch_warnings():
            warnings.simplefilter("ignore")
            raised, paths = None, None
            try:
                paths = cache[[cl.uri(k) for k in keys]]
            except Exception as e:
                raised = e
                cl.quiesce()
        done = [e[1] for e in lab.log if e[0] in ("done", "notfound")]
        ctx.case(("bigreq", len(keys), len(missing), "reordered" if done != [k for k in keys] else "in-order"),
                 nontrivial=bool(missing), sample=c if len(ctx.samples) < 1 else None)
        ctx.observe("large request: completion order", ",".join(done))
        if done != keys:
            ctx.count("C19.bigreq_completion_order_differs_from_request_order")
        ctx.count("C19.faults_delivered", len(missing))
        others = [k for k in keys if k not in missing]
        good = (raised is None and paths is not None
                and [os.path.basename(p) for p in paths] == [cl.expected_name(k) for k in others])
        ctx.check("C19.fault:request-omits-or-raises", bool(good), wit,
                  {"raised": repr(raised), "returned": paths and [os.path.basename(p) for p in paths],
                   "expected": [cl.expected_name(k) for k in others]}, key="C19:bigreq:omit")
        if good:
            okb = all(os.path.exists(p) and cl.read_noatime(p) == cl.content(k) for k, p in zip(others, paths))
            ctx.check("C19.fault:others-intact", okb, wit, key="C19:bigreq:others")
        files = lab.disk_cache_files()
        ctx.check("C19.reopen:len(cache)==cache-files-on-disk", len(cache) == len(files) == len(others), wit,
                  {"len": len(cache), "files": len(files), "expected": len(others)}, key="C19:bigreq:len")
        # retry: exactly the missing ones are fetched afresh
        lab.plan.clear()
        lab.log.clear()
        raised2, paths2 = None, None
        try:
            with warnings.catch_warnings():
                warnings.simplefilter("ignore")
                paths2 = cache[[cl.uri(k) for k in keys]]
        except Exception as e:
            raised2 = e
            cl.quiesce()
        started = sorted(e[1] for e in lab.log if e[0] == "start")
        ctx.check("C19.retry:fetched-afresh", started == sorted(missing), wit,
                  {"contacted": started, "expected": sorted(missing), "raised": repr(raised2)}, key="C19:bigreq:afresh")
        good2 = raised2 is None and paths2 is not None and len(paths2) == len(keys) and all(
            os.path.exists(p) and cl.read_noatime(p) == cl.content(k) for k, p in zip(keys, paths2))
        ctx.check("C19.retry:returned-bytes", bool(good2), wit, {"raised": repr(raised2)}, key="C19:bigreq:retry")
        verify_reopen(ctx, lab, wit, "reopen:served-bytes==resource-bytes", keys=keys)
    finally:
        lab.close()


def gen_bigreq(rng):
    n = int(rng.integers(6, 13))
    keys = [str(k) for k in rng.permutation(BIG)[:n]]
    nmiss = int(rng.choice([1, 1, 2]))
    missing = [str(k) for k in rng.choice(keys, size=nmiss, replace=False)]
    mode = str(rng.choice(["first-chunk-slow", "random-slow", "head-slow"]))
    if mode == "first-chunk-slow":
        slow = keys[:5]
    elif mode == "head-slow":
        slow = keys[:1]
    else:
        slow = [k for k in keys if rng.uniform() < 0.5]
    return {"keys": keys, "missing": missing, "slow": slow, "mode": mode}


# ------------------------------------------------------------------ the built-in resources (https:// and file://)
class _FakeResponse:
    def __init__(self, status, body):
        self.status_code, self.content, self.text = status, body, body.decode(errors="replace")[:50]

    def raise_for_status(self):
        import requests
        if self.status_code >= 400:
            raise requests.exceptions.HTTPError(f"{self.status_code} error", response=self)


def builtin_runs(ctx, work):
    """the default resources of FileCache: RemoteResourceHTTPS (requests.api.get replaced by an in-memory fake that
    returns a status code and a body) and RemoteResourceLocal (file:// copy). An error response / a missing source
    file is a failed fetch: nothing may be served for it, and a later request must fetch afresh."""
    import requests
    from ocean_science_utilities.filecache.cache_object import FileCache
    root = os.path.join(work, "cache")
    srcdir = os.path.join(work, "src")
    real_get = requests.api.get
    statuses = {}
    calls = []

    def fake_get(u, **kw):
        key = u.rsplit("/", 1)[1]
        calls.append(key)
        st = statuses.get(key, 200)
        if st == "connection-error":
            raise requests.exceptions.ConnectionError("injected")
        body = cl.content(key) if st == 200 else (b"<html>error %d</html>" % st) * 20
        return _FakeResponse(st, body)

    requests.api.get = fake_get
    try:
        for status in (404, 403, 500, 503, "connection-error"):
            for tolerant in (True, False):
                for parallel in (False, True):
                    wit = {"builtin": "https", "status": status, "tolerant": tolerant, "parallel": parallel}
                    import shutil
                    shutil.rmtree(root, ignore_errors=True)
                    statuses.clear()
                    statuses["B"] = status
                    ctx.case(("builtin-https", str(status), tolerant, parallel), nontrivial=True,
                             sample=wit if status == 500 and tolerant and not parallel else None)
                    ctx.count("C19.faults_delivered")
                    ctx.count("C19.builtin_https_faults")
                    with warnings.catch_warnings():
                        warnings.simplefilter("ignore")
                        cache = FileCache(root, 1e-3, parallel=parallel, allow_for_missing_files=tolerant)
                        cache.disable_progress_bar = True
                        uris = [f"https://host/bucket/{k}" for k in ("A", "B", "C")]
                        raised, paths = None, None
                        try:
                            paths = cache[uris]
                        except Exception as e:
                            raised = e
                            cl.quiesce()
                        if raised is None:
                            # the request returned: it must have omitted exactly B
                            names = [os.path.basename(p) for p in paths]
                            okp = len(paths) == 2 and all(cl.read_noatime(p) == cl.content(k) for k, p in zip(("A", "C"), paths))
                            ctx.check("C19.fault:request-omits-or-raises", bool(okp), wit, {"returned": names},
                                      key="C19:builtin:https:omit")
                        else:
                            ctx.check("C19.fault:request-omits-or-raises", True)
                        # the remote recovers: everything must be fetched / served with the right bytes, B afresh
                        statuses.clear()
                        calls.clear()
                        try:
                            paths2 = cache[uris]
                            good = all(cl.read_noatime(p) == cl.content(k) for k, p in zip(("A", "B", "C"), paths2))
                            ctx.check("C19.retry:returned-bytes", bool(good and len(paths2) == 3), wit,
                                      {"sizes": [os.path.getsize(p) for p in paths2]}, key="C19:builtin:https:retry")
                            ctx.check("C19.retry:fetched-afresh", "B" in calls, wit, {"contacted": list(calls)},
                                      key="C19:builtin:https:afresh")
                        except Exception as e:
                            ctx.check("C19.retry:returned-bytes", False, wit, {"exception": repr(e)}, key="C19:builtin:https:retry")
                        # reopen (fresh fault first: fault -> reopen -> request)
                        shutil.rmtree(root, ignore_errors=True)
                        statuses["B"] = status
                        cache = FileCache(root, 1e-3, parallel=parallel, allow_for_missing_files=tolerant)
                        cache.disable_progress_bar = True
                        try:
                            cache[uris]
                        except Exception:
                            cl.quiesce()
                        statuses.clear()
                        cache = FileCache(root, 1e-3, parallel=parallel, allow_for_missing_files=tolerant)
                        cache.disable_progress_bar = True
                        try:
                            paths3 = cache[uris]
                            good = len(paths3) == 3 and all(cl.read_noatime(p) == cl.content(k) for k, p in zip(("A", "B", "C"), paths3))
                            files = [n for n in os.listdir(root) if cl.is_cache_name(n)]
                            ctx.check("C19.reopen:served-bytes==resource-bytes", bool(good), wit,
                                      {"sizes": [os.path.getsize(p) for p in paths3]}, key="C19:builtin:https:reopen")
                            ctx.check("C19.reopen:len(cache)==cache-files-on-disk", len(cache) == len(files), wit,
                                      {"len": len(cache), "files": len(files)}, key="C19:builtin:https:len")
                        except Exception as e:
                            ctx.check("C19.reopen:served-bytes==resource-bytes", False, wit, {"exception": repr(e)},
                                      key="C19:builtin:https:reopen")
    finally:
        requests.api.get = real_get
    # ---- file:// resource: a missing source file
    import shutil
    for parallel in (False, True):
        wit = {"builtin": "file", "parallel": parallel}
        shutil.rmtree(root, ignore_errors=True)
        shutil.rmtree(srcdir, ignore_errors=True)
        os.makedirs(srcdir)
        for k in ("A", "C"):
            with open(os.path.join(srcdir, k), "wb") as fh:
                fh.write(cl.content(k))
        ctx.case(("builtin-file", parallel), nontrivial=True)
        ctx.count("C19.faults_delivered")
        with warnings.catch_warnings():
            warnings.simplefilter("ignore")
            cache = FileCache(root, 1e-3, parallel=parallel)
            cache.disable_progress_bar = True
            uris = [f"file://{srcdir}/{k}" for k in ("A", "B", "C")]
            raised, paths = None, None
            try:
                paths = cache[uris]
            except Exception as e:
                raised = e
                cl.quiesce()
            if raised is None:
                okp = len(paths) == 2 and all(cl.read_noatime(p) == cl.content(k) for k, p in zip(("A", "C"), paths))
                ctx.check("C19.fault:request-omits-or-raises", bool(okp), wit, key="C19:builtin:file:omit")
            else:
                ctx.check("C19.fault:request-omits-or-raises", True)
            with open(os.path.join(srcdir, "B"), "wb") as fh:
                fh.write(cl.content("B"))
            for reopen in (False, True):
                if reopen:
                    cache = FileCache(root, 1e-3, parallel=parallel)
                    cache.disable_progress_bar = True
                try:
                    p2 = cache[uris]
                    good = len(p2) == 3 and all(cl.read_noatime(p) == cl.content(k) for k, p in zip(("A", "B", "C"), p2))
                    ctx.check("C19.retry:returned-bytes" if not reopen else "C19.reopen:served-bytes==resource-bytes", bool(good),
                              wit, key="C19:builtin:file:retry")
                except Exception as e:
                    ctx.check("C19.retry:returned-bytes", False, wit, {"exception": repr(e)}, key="C19:builtin:file:retry")
        # the source files are foreign files: never modified
        ok_src = all(open(os.path.join(srcdir, k), "rb").read() == cl.content(k) for k in ("A", "B", "C"))
        ctx.check("C19.fault:others-intact", ok_src, wit, key="C19:builtin:file:source")
    # ---- file:// resource + a post-processor that rewrites the downloaded file in place and fails half-way, while the
    #      same object is already cached raw under another key: only the discarded download may be affected
    for parallel in (False, True):
        wit = {"builtin": "file+inplace-postprocess", "parallel": parallel}
        shutil.rmtree(root, ignore_errors=True)
        shutil.rmtree(srcdir, ignore_errors=True)
        os.makedirs(srcdir)
        raw = cl.content("A")
        srcf = os.path.join(srcdir, "A")
        with open(srcf, "wb") as fh:
            fh.write(raw)
        state = {"fail": True}

        def pp_inplace(path):
            with open(path, "r+b") as fh:
                data = fh.read()
                fh.seek(0)
                fh.truncate()
                fh.write(b"# decoded\n" + data[: len(data) // 2].upper())
                if state["fail"]:
                    raise cl.Boom("post-processing failed half-way")
                fh.write(data[len(data) // 2:].upper())
        ctx.case(("builtin-file-inplace", parallel), nontrivial=True)
        try:
            with warnings.catch_warnings():
                warnings.simplefilter("ignore")
                cache = FileCache(root, 1e-3, parallel=parallel)
                cache.disable_progress_bar = True
                cache.set_directive_function("postprocess", "dec", pp_inplace)
                praw = cache[f"file://{srcf}"][0]
                raised = None
                try:
                    cache[f"postprocess=dec:file://{srcf}<<decoded"]
                except Exception as e:
                    raised = e
                    cl.quiesce()
                ctx.count("C19.faults_delivered")
                ctx.check("C19.fault:others-intact", os.path.exists(praw) and cl.read_noatime(praw) == raw, wit,
                          {"what": "raw entry cached earlier", "raised": repr(raised)}, key="C19:builtin:file-inplace:cached")
                ctx.check("C19.fault:others-intact", open(srcf, "rb").read() == raw, wit, {"what": "source file"},
                          key="C19:builtin:file-inplace:source")
                state["fail"] = False
                p2 = cache[f"postprocess=dec:file://{srcf}<<decoded"][0]
                ctx.check("C19.retry:returned-bytes", cl.read_noatime(p2) == b"# decoded\n" + raw.upper(), wit,
                          key="C19:builtin:file-inplace:retry")
                ctx.check("C19.fault:others-intact", cl.read_noatime(praw) == raw and open(srcf, "rb").read() == raw, wit,
                          {"what": "raw entry / source after the successful retry"}, key="C19:builtin:file-inplace:after-retry")
        except Exception as e:
            import traceback
            ctx.check("C19.no-harness-surprise", False, wit, {"exception": repr(e), "traceback": traceback.format_exc(limit=6)},
                      key="C19:builtin:file-inplace:exception")
    shutil.rmtree(root, ignore_errors=True)
    shutil.rmtree(srcdir, ignore_errors=True)


def run_shard(ctx, shard):
    work = os.environ.get("VERIF_WORK", "/verif/.work")
    if shard["mode"] == "builtin":
        builtin_runs(ctx, work)
        return
    if shard["mode"] == "bigreq":
        rng = ctx.rng()
        for _ in range(shard["n"]):
            bigreq_run(ctx, gen_bigreq(rng), work)
        return
    if shard["mode"] == "faults":
        for idx, args in enumerate(enumerate_fault_runs(shard["maxlen"])):
            if idx % shard["of"] != shard["part"]:
                continue
            delivered = fault_run(ctx, *args, work)
            hist, i, pos, fault, strict, parallel, cont = args
            ctx.case(("fault", tuple(hist), i, pos, fault, strict, parallel, cont), nontrivial=bool(delivered),
                     sample={"history": hist, "op": i, "pos": pos, "fault": fault, "strict": strict,
                             "parallel": parallel, "then": cont} if idx % 997 == 0 else None)
    elif shard["mode"] == "crash":
        crash_runs(ctx, shard["history"], shard["parallel"], work)
    else:
        exit_runs(ctx, shard["n"], work)


def replay(ctx, case):
    work = os.environ.get("VERIF_WORK", "/verif/.work")
    if "builtin" in case:
        builtin_runs(ctx, work)
    elif "bigreq" in case:
        bigreq_run(ctx, case["bigreq"], work)
    elif case.get("crash"):
        crasher = LineCrasher()
        crash_runs(ctx, case["history"], case["parallel"], work)
    elif "exit" in case:
        exit_runs(ctx, 4, work)
    else:
        fault_run(ctx, case["history"], case["op"], case["pos"], case["fault"], case["strict"], case["parallel"],
                  case["continuation"], work)
