"""C07 - wavenumber solver inverts the dispersion relation; group velocity is consistent."""
from __future__ import annotations

import numpy as np

from ..core import guarded
from ..gens import spectra as gs
from ..monitors import history as hist

PROPERTY = "C07"
LEVEL = "exploration"
RULE = ("log-uniform w in [3e-3,50] x d in [1e-2,1e4] and d=inf (kd 1e-5..1e5); arrays mixing all regimes in one "
        "call, calls of 1..7 elements, scalars; dense sorted sweeps in w and in d centred on the first-guess "
        "switch w=sqrt(g/d) and on the derivative switch kd=5; spectra (all layouts) with per-point depths incl. "
        "NaN and inf. Every returned k is judged by the oracle's own dispersion residual. distinct = (call kind, "
        "size class, regime mix); non-trivial = finite depth with 0.05<kd<20 present or a sweep crossing a switch.")
ASSUMPTIONS = ["g = 9.81; w=0 excluded (outside the quantifier)",
               "monotonicity in d is required up to 1e-6 relative (three orders below the solver tolerance); "
               "smaller increases are the recorded known finding"]
REQUIRED_MONITORS = ["C07.k>0-finite", "C07.dispersion-residual<=1e-3", "C07.deep-asymptote", "C07.shallow-asymptote",
                     "C07.cg==dw/dk", "C07.cg/c in [0.5,1]", "C07.monotone-in-w", "C07.monotone-in-d",
                     "C07.spectrum:wavenumber", "C07.spectrum:wavelength", "C07.spectrum:wave_speed",
                     "C07.spectrum:group_velocity", "C07.scalar-call"]
REQUIRED_REACH = ["spectrum.py:WaveSpectrum.wavenumber", "spectrum.py:WaveSpectrum.group_velocity",
                  "spectrum.py:WaveSpectrum.depth"]
REQUIRED_COUNTERS = {"C07.points": 1000, "C07.sweeps_crossing_kd5": 2, "C07.sweeps_crossing_first_guess_switch": 2}
TIMEOUT = {"quick": 600, "thorough": 2400}
N = {"quick": (8, 500), "thorough": (16, 8000)}
G = 9.81


def plan(tier, seed):
    ns, per = N[tier]
    shards = [{"n": per} for _ in range(ns)]
    if tier == "thorough":
        shards.append({"n": per // 4, "env": {"NUMBA_BOUNDSCHECK": "1"}})
    return shards


def omega_of(k, d):
    with np.errstate(over="ignore", invalid="ignore"):
        th = np.where(np.isinf(d), 1.0, np.tanh(k * d))
    return np.sqrt(G * k * th)


def n_ratio(k, d):
    """cg/c exact"""
    with np.errstate(over="ignore", invalid="ignore"):
        kd = k * d
        r = np.where(kd > 300, 0.0, kd / np.sinh(np.minimum(2 * kd, 700)))
        r = np.where(np.isinf(d), 0.0, r)
        r = np.where(kd < 1e-8, 1.0, r)  # kd/sinh(2kd) -> 1/2 ... handled below
    return np.where(k * d < 1e-8, 1.0, 0.5 + r)


def judge_points(ctx, w, d, k, wit, tag="array"):
    w = np.asarray(w, float).ravel()
    d = np.broadcast_to(np.asarray(d, float), np.shape(w)).ravel() if np.ndim(d) == 0 else np.asarray(d, float).ravel()
    k = np.asarray(k, float).ravel()
    if k.shape != w.shape:
        ctx.check("C07.k>0-finite", False, wit, {"shape_k": k.shape, "shape_w": w.shape}, key="C07:shape")
        return
    ctx.count("C07.points", int(w.size))
    ok = bool(np.all(np.isfinite(k)) and np.all(k > 0))
    ctx.check("C07.k>0-finite", ok, wit, {"k": k, "w": w, "d": d}, key="C07:positive")
    if not ok:
        return
    res = np.abs(omega_of(k, d) - w) / w
    ctx.check("C07.dispersion-residual<=1e-3", bool(np.all(res <= 1e-3)), wit,
              {"max_rel_residual": float(res.max()), "w": w[np.argmax(res)], "d": d[np.argmax(res)],
               "k": k[np.argmax(res)]}, key="C07:residual")
    ctx.ratio("C07.dispersion-residual<=1e-3", float(res.max()), 1e-3)
    with np.errstate(invalid="ignore", over="ignore"):
        kd = k * d
    deep = kd > 20
    if deep.any():
        dev = np.abs(k[deep] - w[deep] ** 2 / G) / k[deep]
        ctx.check("C07.deep-asymptote", bool(np.all(dev <= 2.1e-3)), wit, {"max": float(dev.max())}, key="C07:deep")
        ctx.ratio("C07.deep-asymptote", float(dev.max()), 2.1e-3)
    sh = kd < 0.05
    if sh.any():
        dev = np.abs(k[sh] - w[sh] / np.sqrt(G * d[sh])) / k[sh]
        bound = 1.1e-3 + kd[sh] ** 2 / 6
        ctx.check("C07.shallow-asymptote", bool(np.all(dev <= bound)), wit, {"max": float(np.max(dev / bound))},
                  key="C07:shallow")
        ctx.ratio("C07.shallow-asymptote", float(np.max(dev / bound)), 1.0)


def judge_cg(ctx, k, d, wit):
    from ocean_science_utilities.wavetheory.lineardispersion import (
        intrinsic_group_velocity, phase_velocity, intrinsic_dispersion_relation)
    k = np.asarray(k, float).ravel()
    d = np.asarray(d, float).ravel()
    ok, cg = guarded(ctx, "C07.no-exception", lambda: intrinsic_group_velocity(k, d), wit, key="C07:exception:cg")
    ok2, c = guarded(ctx, "C07.no-exception", lambda: phase_velocity(k, d), wit, key="C07:exception:c")
    ok3, w = guarded(ctx, "C07.no-exception", lambda: intrinsic_dispersion_relation(k, d), wit, key="C07:exception:w")
    if not (ok and ok2 and ok3):
        return
    cg, c, w = np.asarray(cg, float), np.asarray(c, float), np.asarray(w, float)
    wo = omega_of(k, d)
    ctx.close("C07.w(k)==sqrt(gk tanh kd)", w, wo, atol=0, rtol=1e-12, case=wit, key="C07:forward")
    ctx.close("C07.c==w/k", c, wo / k, atol=0, rtol=1e-12, case=wit, key="C07:phase")
    want = n_ratio(k, d) * wo / k
    rel = np.abs(cg - want) / want
    ctx.check("C07.cg==dw/dk", bool(np.all(rel <= 2e-3)), wit, {"max_rel": float(rel.max()),
                                                              "k": k[np.argmax(rel)], "d": d[np.argmax(rel)]},
              key="C07:cg")
    ctx.ratio("C07.cg==dw/dk", float(rel.max()), 2e-3)
    ratio = cg / c
    ctx.check("C07.cg/c in [0.5,1]", bool(np.all((ratio >= 0.5 - 1e-12) & (ratio <= 1 + 1e-12))), wit,
              {"min": float(ratio.min()), "max": float(ratio.max())}, key="C07:ratio")


def draw_wd(rng, n):
    w = 10 ** rng.uniform(np.log10(3e-3), np.log10(50), n)
    d = 10 ** rng.uniform(-2, 4, n)
    d = np.where(rng.uniform(0, 1, n) < 0.1, np.inf, d)
    return w, d


def case_array(ctx, rng):
    from ocean_science_utilities.wavetheory.lineardispersion import inverse_intrinsic_dispersion_relation as kfun
    n = int(rng.choice([1, 2, 3, 5, 7, 50, 400]))
    w, d = draw_wd(rng, n)
    wit = {"kind": "array", "w": w, "d": d}
    with np.errstate(invalid="ignore"):
        kd_est = np.where(np.isinf(d), np.inf, w ** 2 / G * d)
    mid = bool(np.any((kd_est > 0.05) & (kd_est < 20)))
    ctx.case(("array", "n<=7" if n <= 7 else "big", "mixed" if mid else "extremes"), nontrivial=mid,
             sample={"w": w[:5], "d": d[:5]})
    ok, k = guarded(ctx, "C07.no-exception", lambda: kfun(w, d), wit, key="C07:exception")
    if ok:
        judge_points(ctx, w, d, k, wit)
        kk = np.asarray(k, float).ravel()
        if np.all(np.isfinite(kk)) and np.all(kk > 0) and kk.shape == w.shape:
            judge_cg(ctx, kk, d, wit)
    # direct group-velocity sweep at arbitrary k,d (independent of the solver)
    k2 = 10 ** rng.uniform(-5, 2, n)
    judge_cg(ctx, k2, d, {"kind": "cg", "k": k2, "d": d})
    # scalar depth with array frequency
    ds = float(10 ** rng.uniform(-2, 4))
    ok, k = guarded(ctx, "C07.no-exception", lambda: kfun(w, ds), {"kind": "array", "w": w, "d": ds}, key="C07:exception")
    if ok:
        judge_points(ctx, w, np.full(n, ds), k, {"kind": "array", "w": w, "d": ds})


def case_scalar(ctx, rng):
    from ocean_science_utilities.wavetheory.lineardispersion import inverse_intrinsic_dispersion_relation as kfun
    w, d = draw_wd(rng, 1)
    w, d = float(w[0]), float(d[0])
    wit = {"kind": "scalar", "w": w, "d": d}
    ctx.case(("scalar", "inf" if np.isinf(d) else "finite"), nontrivial=not np.isinf(d), sample=wit)
    ok, k = guarded(ctx, "C07.no-exception", lambda: kfun(w, d), wit, key="C07:exception:scalar")
    if ok:
        ctx.check("C07.scalar-call", np.size(k) == 1, wit, {"k": k}, key="C07:scalar")
        judge_points(ctx, [w], [d], np.asarray(k).ravel(), wit)


def case_sweep(ctx, rng):
    """dense sorted sweeps inside one call"""
    from ocean_science_utilities.wavetheory.lineardispersion import inverse_intrinsic_dispersion_relation as kfun
    var = str(rng.choice(["w", "d"]))
    centre = str(rng.choice(["first-guess-switch", "kd5", "random"]))
    n = int(rng.choice([50, 400, 3000]))
    span = float(10 ** rng.uniform(-6, -0.3))  # relative half width of the sweep
    if var == "w":
        d0 = float(10 ** rng.uniform(-1, 3.5))
        if centre == "first-guess-switch":
            w0 = np.sqrt(G / d0)
        elif centre == "kd5":
            k5 = 5.0 / d0
            w0 = float(omega_of(np.array(k5), np.array(d0)))
        else:
            w0 = float(10 ** rng.uniform(np.log10(3e-3), np.log10(50)))
        w = w0 * (1 + np.linspace(-span, span, n))
        w = w[(w >= 3e-3) & (w <= 50)]
        if w.size < 3:
            return
        d = np.full(w.size, d0)
    else:
        w0 = float(10 ** rng.uniform(np.log10(0.05), np.log10(20)))
        if centre == "first-guess-switch":
            d0 = G / w0 ** 2
        elif centre == "kd5":
            # kd=5 -> deep: k ~ w^2/g -> d = 5 g / w^2
            d0 = 5.0 * G / w0 ** 2 / np.tanh(5.0)
        else:
            d0 = float(10 ** rng.uniform(-1.5, 3.5))
        d = d0 * (1 + np.linspace(-span, span, n))
        d = d[(d >= 1e-2) & (d <= 1e4)]
        if d.size < 3:
            return
        w = np.full(d.size, w0)
    wit = {"kind": "sweep", "var": var, "w": w, "d": d, "centre": centre}
    if centre == "kd5":
        ctx.count("C07.sweeps_crossing_kd5")
    if centre == "first-guess-switch":
        ctx.count("C07.sweeps_crossing_first_guess_switch")
    ctx.case(("sweep", var, centre, n, "narrow" if span < 1e-3 else "wide"), nontrivial=centre != "random",
             sample={"var": var, "centre": centre, "n": n, "span": span})
    ok, k = guarded(ctx, "C07.no-exception", lambda: kfun(w, d), wit, key="C07:exception")
    if not ok:
        return
    judge_points(ctx, w, d, k, wit)
    k = np.asarray(k, float).ravel()
    if k.shape != w.shape or not np.all(np.isfinite(k)):
        return
    dk = np.diff(k)
    if var == "w":
        bad = dk <= 0
        rel = float(np.max(-dk / k[:-1], initial=0.0))
        if np.any(bad):
            key = "C07:w-monotonicity:rel-decrease<1e-6" if rel < 1e-6 else "C07:w-monotonicity:rel-decrease>=1e-6"
        else:
            key = None
        ctx.check("C07.monotone-in-w", not np.any(bad), wit, {"worst_rel_decrease": rel,
                                                              "at": int(np.argmax(-dk)), "centre": centre}, key=key)
    else:
        bad = dk > 0
        rel = float(np.max(dk / k[:-1], initial=0.0))
        key = None
        if np.any(bad):
            key = "C07:d-monotonicity:rel-increase<1e-6" if rel < 1e-6 else "C07:d-monotonicity:rel-increase>=1e-6"
        ctx.check("C07.monotone-in-d", not np.any(bad), wit, {"worst_rel_increase": rel, "at": int(np.argmax(dk)),
                                                              "kd": float(k[int(np.argmax(dk))] * d[int(np.argmax(dk))]),
                                                              "centre": centre}, key=key)
        ctx.ratio("C07.monotone-in-d", rel, 1e-6)


def case_spectrum(ctx, rng):
    c = gs.case_1d(rng, nf=int(rng.integers(2, 30)), depth_kind=str(rng.choice(["mixed", "finite", "inf"])),
                   allow_zero=False) if rng.uniform() < 0.5 else \
        gs.case_2d(rng, nf=int(rng.integers(2, 20)), nd=int(rng.choice([8, 24])),
                   depth_kind=str(rng.choice(["mixed", "finite", "inf"])), allow_zero=False)
    if rng.uniform() < 0.3:
        # infragravity / tsunami band: deep water (missing or infinite depth) must stay deep water at 5e-4 Hz too
        f = np.asarray(c["freq"], float)
        c["freq"] = f * (10 ** rng.uniform(-3.3, -2.3) / f[0])
        c["fkind"] = str(c["fkind"]) + "+verylow"
        ctx.count("C07.spectra_with_frequencies_below_0.005Hz")
    judge_spectrum(ctx, c)
    c["_hseed"] = int(rng.integers(0, 2 ** 62))
    hist.judge_history(ctx, "C07", c, np.random.default_rng(c["_hseed"]), *history_io(c), nsteps=6)


def history_io(c):
    reads = hist.reads_from(c, plain=("wavenumber", "wavelength", "group_velocity", "peak_wavenumber"),
                            calls=(("wave_speed()", lambda s: s.wave_speed()), ("peak_wave_speed()", lambda s: s.peak_wave_speed())))
    mods = hist.spectrum_mods(c, with_depth=True)
    # the depth modification is the interesting one here: every other modification leaves k unchanged
    return reads, [mods[-1], mods[-1], mods[0], mods[1]]


def judge_spectrum(ctx, c):
    s = gs.build(c)
    wit = lambda: {"kind": "spectrum", "gen": c}  # noqa
    f = c["freq"]
    depth = np.asarray(c["depth"], float)
    depth = np.where(np.isnan(depth), np.inf, depth)
    lead = np.asarray(c["E"]).shape[:-1] if c["kind"] == "1d" else np.asarray(c["E"]).shape[:-2]
    if c["layout"] == "flat":
        lead = (int(np.prod(lead)),)
    dd = depth.reshape(lead + (1,)) * np.ones(lead + (len(f),))
    ww = 2 * np.pi * f * np.ones(lead + (len(f),))
    ctx.case(("spectrum", c["kind"], c["layout"], c["depth_kind"]), nontrivial=c["depth_kind"] != "inf",
             sample={"layout": c["layout"], "depth": depth, "freq": f[:5]})
    vals = {}
    for name in ("wavenumber", "wavelength", "group_velocity"):
        ok, v = guarded(ctx, "C07.no-exception", lambda: getattr(s, name), wit, key=f"C07:exception:{name}")
        if ok:
            vals[name] = np.asarray(v.values, float)
    ok, v = guarded(ctx, "C07.no-exception", lambda: s.wave_speed(), wit, key="C07:exception:wave_speed")
    if ok:
        vals["wave_speed"] = np.asarray(v.values, float)
    if "wavenumber" not in vals:
        return
    k = vals["wavenumber"]
    if k.shape != ww.shape:
        ctx.check("C07.spectrum:wavenumber", False, wit, {"shape": k.shape, "want": ww.shape}, key="C07:spectrum:shape")
        return
    res = np.abs(omega_of(k, dd) - ww) / ww
    ctx.check("C07.spectrum:wavenumber", bool(np.all(np.isfinite(k)) and np.all(k > 0) and np.all(res <= 1e-3)), wit,
              {"max_rel_residual": float(np.nanmax(res))}, key="C07:spectrum:wavenumber")
    if "wavelength" in vals:
        ctx.close("C07.spectrum:wavelength", vals["wavelength"], 2 * np.pi / k, atol=0, rtol=3e-3, case=wit,
                  key="C07:spectrum:wavelength")
        lres = np.abs(omega_of(2 * np.pi / vals["wavelength"], dd) - ww) / ww if vals["wavelength"].shape == ww.shape else np.array([1.0])
        ctx.check("C07.spectrum:wavelength", bool(np.all(lres <= 1e-3)), wit, {"max": float(np.max(lres))},
                  key="C07:spectrum:wavelength")
    if "wave_speed" in vals and vals["wave_speed"].shape == ww.shape:
        kk = ww / vals["wave_speed"]
        cres = np.abs(omega_of(kk, dd) - ww) / ww
        ctx.check("C07.spectrum:wave_speed", bool(np.all(cres <= 1e-3)), wit, {"max": float(np.max(cres))},
                  key="C07:spectrum:wave_speed")
    elif "wave_speed" in vals:
        ctx.check("C07.spectrum:wave_speed", False, wit, {"shape": vals["wave_speed"].shape}, key="C07:spectrum:wave_speed")
    if "group_velocity" in vals and vals["group_velocity"].shape == ww.shape:
        # group velocity of the true wavenumber (solve with many Newton steps here, independent of the repo)
        kt = true_k(ww, dd)
        want = n_ratio(kt, dd) * ww / kt
        rel = np.abs(vals["group_velocity"] - want) / want
        # k is within 1e-3 relative residual in w => cg within ~ few 1e-3
        ctx.check("C07.spectrum:group_velocity", bool(np.all(rel <= 5e-3)), wit, {"max_rel": float(rel.max())},
                  key="C07:spectrum:group_velocity")
        ctx.ratio("C07.spectrum:group_velocity", float(rel.max()), 5e-3)
    elif "group_velocity" in vals:
        ctx.check("C07.spectrum:group_velocity", False, wit, {"shape": vals["group_velocity"].shape},
                  key="C07:spectrum:group_velocity")


def true_k(w, d, iters=60):
    """oracle: bisection-safe Newton in log space on f(k)=g k tanh(kd) - w^2"""
    w = np.asarray(w, float)
    d = np.asarray(d, float)
    k = np.maximum(w ** 2 / G, w / np.sqrt(G * np.where(np.isinf(d), 1.0, d)))
    k = np.where(np.isinf(d), w ** 2 / G, k)
    lo, hi = k * 0.3, k * 1.5
    for _ in range(200):
        mid = 0.5 * (lo + hi)
        f = omega_of(mid, d) - w
        lo = np.where(f < 0, mid, lo)
        hi = np.where(f >= 0, mid, hi)
    return 0.5 * (lo + hi)


def run_shard(ctx, shard):
    rng = ctx.rng()
    for i in range(shard["n"]):
        r = i % 5
        if r == 0:
            case_array(ctx, rng)
        elif r == 1:
            case_scalar(ctx, rng)
        elif r in (2, 3):
            case_sweep(ctx, rng)
        else:
            case_spectrum(ctx, rng)


def replay(ctx, case):
    from ocean_science_utilities.wavetheory.lineardispersion import inverse_intrinsic_dispersion_relation as kfun
    kind = case.get("kind")
    if "history" in case:
        hist.run_history(ctx, "C07", case["gen"], case["history"], *history_io(case["gen"]))
    elif kind == "spectrum":
        judge_spectrum(ctx, case["gen"])
    elif kind == "cg":
        judge_cg(ctx, case["k"], case["d"], case)
    elif kind in ("array", "scalar", "sweep"):
        w, d = case["w"], case["d"]
        k = kfun(w, d)
        n = np.size(w)
        judge_points(ctx, np.atleast_1d(w), np.full(n, d) if np.ndim(d) == 0 else d, k, case)
        if kind == "sweep":
            k = np.asarray(k).ravel()
            dk = np.diff(k)
            if case["var"] == "w":
                ctx.check("C07.monotone-in-w", not np.any(dk <= 0), case, key="C07:w-monotonicity")
            else:
                rel = float(np.max(dk / k[:-1], initial=0.0))
                key = None if rel <= 0 else ("C07:d-monotonicity:rel-increase<1e-6" if rel < 1e-6 else
                                            "C07:d-monotonicity:rel-increase>=1e-6")
                ctx.check("C07.monotone-in-d", not np.any(dk > 0), case, {"worst_rel_increase": rel}, key=key)
