"""C18 - file cache: contents, hits, size bound and LRU eviction over any request history."""
from __future__ import annotations

import itertools
import os

import numpy as np

from .. import cachelab as cl

PROPERTY = "C18"
LEVEL = "exploration"
RULE = ("bounded-exhaustive histories: every sequence of length <= L (quick L=4, thorough L=5) over the 10 operation "
        "symbols {get A, get B, get [A,C], get A<<x, remove A, purge, reopen, touch B, read-access A, foreign} x 4 size limits "
        "(no eviction / one eviction / a request that fills the cache exactly / request larger than the cache) x {sequential, parallel} executed on the real "
        "FileCache in a scratch directory and judged after every operation against an executable reference model "
        "(hits/misses from an instrumented resource log, bytes, file names, size bound, eviction relation, entry "
        "count vs directory listing, foreign files, audit-hook events); plus seeded random histories of 60-200 "
        "operations over 6 URIs with injected download delays. distinct = operation sequence x limit x mode; "
        "non-trivial = history containing at least one get.")
ASSUMPTIONS = ["eviction is judged as a relation (keys used by the same request are tied in recency)",
               "before every operation the harness ages cache files by 10 s so that timestamp granularity never "
               "decides an order; the checker reads files with O_NOATIME",
               "comment suffix separator is '<<' (as implemented; the docstring says '>>')"]
EXHAUSTIVE = {"quick": True, "thorough": True}
REQUIRED_MONITORS = ["C18.returned-path-holds-resource-bytes", "C18.hits-served-without-contact",
                     "C18.distinct-uris-distinct-files", "C18.len(cache)==cache-files-on-disk",
                     "C18.total-size<=limit", "C18.evicts-least-recently-used-first", "C18.never-evicts-current-request",
                     "C18.evicts-no-more-than-needed", "C18.foreign-files-untouched",
                     "C18.audit:only-cache-owned-paths-written", "C18.sequential==parallel",
                     "C18.limit-enlarged-only-when-request-exceeds", "C18.named-caches"]
REQUIRED_REACH = ["cache_object.py:FileCache.__getitem__", "cache_object.py:FileCache._cache_eviction",
                  "cache_object.py:FileCache.purge", "cache_object.py:FileCache.remove",
                  "cache_object.py:FileCache._initialize_cache", "cache_object.py:_download_from_resources"]
REQUIRED_COUNTERS = {"C18.evictions": 10, "C18.hits": 10, "C18.enlargements": 3, "C18.parallel_requests": 3,
                     "C18.histories": 50}
TIMEOUT = {"quick": 900, "thorough": 3600}
SYMBOLS = ["gA", "gB", "gAC", "gAx", "rA", "purge", "reopen", "tB", "aA", "foreign", "gBv", "gZ"]
LIMITS = {"roomy": 10 ** 6, "tight": 9500, "exact": 8000, "tiny": 4500}
NSHARDS = {"quick": 16, "thorough": 16}
MAXLEN = {"quick": 4, "thorough": 5}
NRANDOM = {"quick": 24, "thorough": 400}


def plan(tier, seed):
    n = NSHARDS[tier]
    shards = [{"mode": "exhaustive", "of": n, "part": i, "maxlen": MAXLEN[tier]} for i in range(n)]
    shards += [{"mode": "random", "n": NRANDOM[tier] // 4} for _ in range(4)]
    shards += [{"mode": "named"}]
    return shards


def apply(lab, sym):
    if sym == "gA":
        return lab.op_get(["A"])
    if sym == "gB":
        return lab.op_get(["B"])
    if sym == "gBv":
        # B requested through a validation directive whose function accepts: a hit like any other
        return lab.op_get(["B"], directive="validate=ok:")
    if sym == "gZ":
        # a resource of exactly zero bytes
        return lab.op_get(["Z"])
    if sym == "gAC":
        return lab.op_get(["A", "C"])
    if sym == "gAx":
        return lab.op_get(["A<<x"])
    if sym == "rA":
        return lab.op_remove("A")
    if sym == "purge":
        return lab.op_purge()
    if sym == "reopen":
        return lab.op_reopen()
    if sym == "tB":
        return lab.op_touch("B")
    if sym == "aA":
        return lab.op_access("A")
    if sym == "foreign":
        return lab.op_foreign()
    if sym.startswith("g:"):
        return lab.op_get(sym[2:].split(","))
    if sym.startswith("gv:"):
        return lab.op_get(sym[3:].split(","), directive="validate=ok:")
    if sym.startswith("r:"):
        return lab.op_remove(sym[2:])
    if sym.startswith("t:"):
        return lab.op_touch(sym[2:])
    if sym.startswith("a:"):
        return lab.op_access(sym[2:])
    raise ValueError(sym)


def run_history(ctx, seq, limit_name, work, delays_seed=None):
    """execute one history in both download modes; returns nothing (records in ctx)"""
    results = {}
    for parallel in (False, True):
        wit = {"history": list(seq), "limit": limit_name, "parallel": parallel, "delays_seed": delays_seed}
        root = os.path.join(work, "cache")
        delays = None
        if delays_seed is not None:
            drng = np.random.default_rng(delays_seed)
            table = {k: float(drng.uniform(0, 0.004)) for k in cl.SIZES}
            delays = lambda key: table[key[-1]]  # noqa
        lab = cl.Lab(ctx, root, LIMITS[limit_name], parallel, "C18", wit, delays=delays)
        returned = []
        try:
            lab.open()
            lab.check_invariants("open")
            for sym in seq:
                returned.append(apply(lab, sym))
            results[parallel] = (returned, sorted(m["key"] for m in lab.model.values()), lab.unique)
        except Exception as e:  # the cache raised: a request must return paths
            import traceback
            ctx.check("C18.no-exception", False, wit, {"exception": repr(e), "traceback": traceback.format_exc(limit=8)},
                      key="C18:exception:" + type(e).__name__)
        else:
            ctx.check("C18.no-exception", True)
        finally:
            lab.close()
    if False in results and True in results:
        a, b = results[False], results[True]
        same = a[0] == b[0] and (a[1] == b[1] or not (a[2] and b[2]))
        ctx.check("C18.sequential==parallel", same, {"history": list(seq), "limit": limit_name},
                  {"sequential": a[:2], "parallel": b[:2]}, key="C18:seq-vs-par")
    ctx.count("C18.histories")
    ctx.case(("hist", tuple(seq), limit_name) if len(seq) <= 4 else ("random", limit_name, len(seq)),
             nontrivial=any(s.startswith("g") for s in seq),
             sample={"history": list(seq), "limit": limit_name} if len(seq) == 3 else None)


def random_history(rng):
    keys = ["A", "B", "C", "D", "E", "F", "A<<x", "C<<y", "Z"]
    n = int(rng.integers(60, 200))
    seq = []
    for _ in range(n):
        r = rng.uniform()
        if r < 0.7:
            k = int(rng.choice([1, 1, 2, 3]))
            ks = list(rng.choice(keys, size=k, replace=False))
            seq.append(("gv:" if rng.uniform() < 0.25 else "g:") + ",".join(ks))
        elif r < 0.78:
            seq.append("r:" + str(rng.choice(keys)))
        elif r < 0.8:
            seq.append("purge")
        elif r < 0.86:
            seq.append("reopen")
        elif r < 0.91:
            seq.append("t:" + str(rng.choice(keys)))
        elif r < 0.96:
            seq.append("a:" + str(rng.choice(keys)))
        else:
            seq.append("foreign")
    return seq


def named_caches(ctx, work):
    """module level named caches: unique path per cache, files land in the right directory"""
    from ocean_science_utilities.filecache import filecache as fc
    wit = {"named": True}
    log = []
    res = cl.make_resource(log)
    p1, p2 = os.path.join(work, "n1"), os.path.join(work, "n2")
    try:
        fc.create_cache("one", cache_path=p1, resources=[res], cache_size_GB=1e-3)
        fc.create_cache("two", cache_path=p2, resources=[res], cache_size_GB=1e-3)
        a = fc.filepaths([cl.uri("A")], cache_name="one")
        b = fc.filepaths([cl.uri("A")], cache_name="two")
        ok = (os.path.dirname(os.path.abspath(a[0])) == os.path.abspath(p1)
              and os.path.dirname(os.path.abspath(b[0])) == os.path.abspath(p2)
              and cl.read_noatime(a[0]) == cl.content("A") and cl.read_noatime(b[0]) == cl.content("A"))
        ctx.check("C18.named-caches", ok, wit, {"a": a, "b": b}, key="C18:named")
        try:
            fc.create_cache("three", cache_path=p1, resources=[res])
            ctx.check("C18.named-caches", False, wit, {"what": "second cache created on a path in use"}, key="C18:named:path")
        except ValueError:
            ctx.check("C18.named-caches", True)
        n_before = len(log)
        fc.filepaths([cl.uri("A")], cache_name="one")
        ctx.check("C18.named-caches", len(log) == n_before, wit, {"what": "hit contacted resource"}, key="C18:named:hit")
    except Exception as e:
        import traceback
        ctx.check("C18.named-caches", False, wit, {"exception": repr(e), "traceback": traceback.format_exc(limit=6)},
                  key="C18:named:exception")
    finally:
        for n in ("one", "two", "three"):
            try:
                fc.delete_cache(n)
            except Exception:
                pass
    ctx.case(("named",), nontrivial=True)


def builtin_local(ctx, work):
    """the stock file:// resource: source files with old and *descending* modification times (the first requested is
    the most recently modified source); recency is about use of the cache entry, not about the age of the source"""
    import shutil
    import time as _time
    from ocean_science_utilities.filecache.cache_object import FileCache
    wit = {"builtin_local": True}
    src, root = os.path.join(work, "src"), os.path.join(work, "cache_local")
    shutil.rmtree(src, ignore_errors=True)
    shutil.rmtree(root, ignore_errors=True)
    os.makedirs(src)
    try:
        names, data = ["f1", "f2", "f3", "f4"], {}
        for k, nme in enumerate(names):
            data[nme] = (nme.encode() * 4000)[:4000]
            pth = os.path.join(src, nme)
            with open(pth, "wb") as fh:
                fh.write(data[nme])
            old = 1_000_000_000 - 86400 * 30 * k  # 2001, each one a month older than the one before
            os.utime(pth, (old, old))
        for parallel in (False, True):
            shutil.rmtree(root, ignore_errors=True)
            cache = FileCache(root, 9000 / 1e9, parallel=parallel)  # room for two files
            cache.disable_progress_bar = True
            held = []
            good = True
            detail = None
            for nme in names:
                _time.sleep(0.02)
                pth = cache["file://" + os.path.join(src, nme)][0]
                held.append(nme)
                okb = os.path.exists(pth) and cl.read_noatime(pth) == data[nme]
                on_disk = sorted(n for n in os.listdir(root) if cl.is_cache_name(n))
                want_n = min(len(held), 2)
                if not okb or len(on_disk) != want_n or len(cache) != want_n:
                    good, detail = False, {"after": nme, "returned_exists_with_bytes": okb, "files": len(on_disk), "len": len(cache)}
                    break
                # the two most recently requested must be the ones still served without a new copy
                for keep in held[-2:]:
                    hp = cache["file://" + os.path.join(src, keep)][0]
                    if not (os.path.exists(hp) and cl.read_noatime(hp) == data[keep]):
                        good, detail = False, {"after": nme, "lost": keep}
                if not good:
                    break
            ctx.count("C18.builtin_local_resource_histories")
            ctx.check("C18.evicts-least-recently-used-first", good, wit, dict(detail or {}, parallel=parallel), key="C18:builtin-local:lru")
    except Exception as e:
        import traceback
        ctx.check("C18.no-harness-surprise", False, wit, {"exception": repr(e), "traceback": traceback.format_exc(limit=6)},
                  key="C18:builtin-local:exception")
    finally:
        shutil.rmtree(src, ignore_errors=True)
        shutil.rmtree(root, ignore_errors=True)
    ctx.case(("builtin-local",), nontrivial=True)


def run_shard(ctx, shard):
    work = os.environ.get("VERIF_WORK", "/verif/.work")
    if shard["mode"] == "exhaustive":
        idx = 0
        for L in range(1, shard["maxlen"] + 1):
            for seq in itertools.product(SYMBOLS, repeat=L):
                for lim in LIMITS:
                    if idx % shard["of"] == shard["part"]:
                        run_history(ctx, seq, lim, work)
                    idx += 1
    elif shard["mode"] == "random":
        rng = ctx.rng()
        for i in range(shard["n"]):
            seq = random_history(rng)
            lim = str(rng.choice(["tight", "tight", "tiny", "roomy", "exact"]))
            run_history(ctx, seq, lim, work, delays_seed=int(rng.integers(0, 2 ** 31)))
    else:
        named_caches(ctx, work)
        builtin_local(ctx, work)


def replay(ctx, case):
    work = os.environ.get("VERIF_WORK", "/verif/.work")
    if case.get("builtin_local"):
        builtin_local(ctx, work)
    elif case.get("named"):
        named_caches(ctx, work)
    else:
        run_history(ctx, case["history"], case["limit"], work, delays_seed=case.get("delays_seed"))
