"""C16 - synthetic time series carry the spectrum's variance and are reproducible."""
from __future__ import annotations

import numpy as np

from ..core import guarded
from ..gens import spectra as gs

PROPERTY = "C16"
LEVEL = "exploration"
RULE = ("1D spectra and 2D spectra with all energy in a single direction bin (every bin index reachable), random "
        "spectral shapes on uniform/non-uniform frequency grids, sampling rates 0.5..10 Hz, even and odd signal "
        "lengths 8..20000, all six components, seeds up to 2^32; variance oracle = sum over FFT bins k>=1 of the "
        "linearly resampled spectrum (0 outside its grid) times df, computed independently. distinct = (kind, "
        "component, length parity, length class, grid kind); non-trivial = spectral variance > 0 inside (0, fs/2).")
ASSUMPTIONS = ["population variance (ddof=0) of the nfft samples; spectra without NaN; scalar-layout spectra"]
REQUIRED_MONITORS = ["C16.len(time)==len(series)", "C16.time==i/fs", "C16.same-seed-identical", "C16.other-seed-differs",
                     "C16.var(z)==sum(E*df)", "C16.var(w)==sum(w^2*E*df)", "C16.var(x,y)==cos^2,sin^2*var(z)",
                     "C16.var(u,v)==cos^2,sin^2*var(w)", "C16.scale-sqrt(c)"]
REQUIRED_REACH = ["timeseries.py:surface_timeseries", "timeseries.py:create_fourier_amplitudes"]
REQUIRED_COUNTERS = {"C16.odd_lengths": 3, "C16.2d_cases": 3}
TIMEOUT = {"quick": 600, "thorough": 3000}
N = {"quick": (8, 25), "thorough": (16, 500)}


def plan(tier, seed):
    ns, per = N[tier]
    return [{"n": per} for _ in range(ns)]


def make_case(rng):
    kind = str(rng.choice(["1d", "2d"]))
    fs = float(rng.choice([0.5, 1.0, 2.5, 4.0, 10.0])) if rng.uniform() < 0.4 else float(np.round(rng.uniform(0.5, 10.0), int(rng.integers(1, 4))))
    L = int(rng.choice([8, 9, 16, 33, 100, 257, 1000, 1001, 4096, 20000]))
    if rng.uniform() < 0.45:
        # any length, not only "nice" ones: log-uniform in 8..20000 (halves with large prime factors included)
        L = int(np.exp(rng.uniform(np.log(8), np.log(20000))))
        if rng.uniform() < 0.4:
            L = int(rng.integers(8193, 20001))
    fk = str(rng.choice(["uniform", "random", "log"]))
    nf = int(rng.integers(5, 40))
    # frequency grid scaled so that part of it lies inside (0, fs/2)
    _, f = gs.freq_grid(rng, nf, fk, allow_zero=False)
    f = f / f[-1] * fs * float(rng.uniform(0.3, 0.8))
    _, e = gs.density_1d(rng, f, (), str(rng.choice(["smooth", "multi", "zeros"])))
    c = {"kind": kind, "fs": fs, "L": L, "fkind": fk, "freq": f, "e": e,
         "seed": int(rng.choice([0, 1, 2 ** 32 - 1, int(rng.integers(0, 2 ** 32))], p=[0.15, 0.05, 0.05, 0.75])),
         "seed2": int(rng.integers(0, 2 ** 32)),
         "scale": float(rng.uniform(0.2, 6.0))}
    if kind == "2d":
        nd = int(rng.choice([8, 12, 24, 36]))
        c["nd"] = nd
        c["bin"] = int(rng.integers(0, nd))
    return c


def build(c, scale=1.0):
    from ocean_science_utilities.wavespectra.spectrum import create_1d_spectrum, create_2d_spectrum
    f, e = np.asarray(c["freq"], float), np.asarray(c["e"], float) * scale
    if c["kind"] == "1d":
        z = np.zeros_like(e)
        return create_1d_spectrum(f, e, 0, 0.0, 0.0, z, z, z, z, depth=np.inf, dims=("frequency",))
    nd = int(c["nd"])
    d = np.arange(nd) * 360.0 / nd
    E = np.zeros((len(f), nd))
    E[:, int(c["bin"])] = e / (360.0 / nd)  # so that e(f) is the case's e
    return create_2d_spectrum(f, d, E, 0, 0.0, 0.0, dims=("frequency", "direction"), depth=np.inf)


def oracle_variances(c, n=None, fs=None):
    """spectral variance of the spectrum resampled on the Fourier grid of a series of n samples at rate fs:
    f_k = k*fs/n for 0 <= k < n/2 (for even n the Nyquist bin carries nothing), zero-frequency bin excluded.
    n defaults to the even length the code documents, (L // 2) * 2."""
    fs = c["fs"] if fs is None else fs
    L = c["L"]
    nfft = (L // 2) * 2 if n is None else int(n)
    df = fs / nfft
    fk = np.arange((nfft + 1) // 2) * df
    Ek = np.interp(fk, np.asarray(c["freq"], float), np.asarray(c["e"], float), left=0.0, right=0.0)
    vz = float(np.sum(Ek[1:]) * df)
    vw = float(np.sum((2 * np.pi * fk[1:]) ** 2 * Ek[1:]) * df)
    return nfft, vz, vw


def judge(ctx, c):
    from ocean_science_utilities.wavespectra.timeseries import surface_timeseries
    s = build(c)
    fs, L, seed = c["fs"], c["L"], c["seed"]
    nfft, vz, vw = oracle_variances(c)
    if L % 2:
        ctx.count("C16.odd_lengths")
    if c["kind"] == "2d":
        ctx.count("C16.2d_cases")
        theta = np.deg2rad(int(c["bin"]) * 360.0 / int(c["nd"]))
    else:
        theta = 0.0
    ctx.case((c["kind"], "odd" if L % 2 else "even", "long" if L > 500 else "short", c["fkind"]), nontrivial=vz > 0,
             sample={"kind": c["kind"], "fs": fs, "signal_length": L, "freq": c["freq"][:5], "seed": seed,
                     "bin": c.get("bin")})
    series = {}
    for comp in ("z", "w", "x", "y", "u", "v"):
        wit = lambda: dict(c, component=comp)  # noqa
        ok, r = guarded(ctx, "C16.no-exception", lambda: surface_timeseries(comp, fs, L, s, seed=seed), wit,
                        key="C16:exception")
        if not ok:
            continue
        t, x = np.asarray(r[0], float), np.asarray(r[1], float)
        series[comp] = x
        ctx.check("C16.len(time)==len(series)", len(t) == len(x), wit, {"len_time": len(t), "len_series": len(x)},
                  key="C16:length")
        ctx.close("C16.time==i/fs", t, np.arange(len(t)) / fs, atol=1e-12 * (len(t) / fs), rtol=1e-12, case=wit,
                  key="C16:time")
        ctx.check("C16.finite", bool(np.all(np.isfinite(x))), wit, key="C16:finite")
    if len(series) < 6:
        return
    var = {k: float(np.var(v)) for k, v in series.items()}
    wit = lambda: dict(c)  # noqa
    lens = {len(v) for v in series.values()}
    if len(lens) != 1:
        ctx.check("C16.len(time)==len(series)", False, wit, {"lengths": sorted(lens)}, key="C16:length:components")
        return
    n_ret = lens.pop()
    if n_ret != nfft:
        # a series of another length than the documented even length: the identity is then stated on the Fourier
        # grid of the series that was actually returned
        ctx.count("C16.series_length_other_than_even_length")
        nfft, vz, vw = oracle_variances(c, n=n_ret)
    tol = 1e-9
    ctx.close("C16.var(z)==sum(E*df)", var["z"], vz, atol=1e-300, rtol=tol, case=wit, key="C16:var:z")
    ctx.close("C16.var(w)==sum(w^2*E*df)", var["w"], vw, atol=1e-300, rtol=tol, case=wit, key="C16:var:w")
    sc = max(vz, 1e-300)
    ctx.close("C16.var(x,y)==cos^2,sin^2*var(z)", [var["x"], var["y"]], [np.cos(theta) ** 2 * vz, np.sin(theta) ** 2 * vz],
              atol=1e-12 * sc, rtol=tol, case=wit, key="C16:var:xy")
    sw = max(vw, 1e-300)
    ctx.close("C16.var(u,v)==cos^2,sin^2*var(w)", [var["u"], var["v"]], [np.cos(theta) ** 2 * vw, np.sin(theta) ** 2 * vw],
              atol=1e-12 * sw, rtol=tol, case=wit, key="C16:var:uv")
    # reproducibility
    comp = "z"
    _, again = surface_timeseries(comp, fs, L, s, seed=seed)
    ctx.check("C16.same-seed-identical", bool(np.array_equal(again, series[comp])), wit, key="C16:seed:same")
    # other seeds: one unrelated seed and seeds that differ from `seed` in a single bit (low, middle, top)
    others = [c["seed2"]] + [seed ^ (1 << k) for k in (0, 7, 15, 16, 24, 31)]
    for s2_ in others:
        if vz > 0 and s2_ != seed:
            _, other = surface_timeseries(comp, fs, min(L, 64), s, seed=int(s2_))
            _, base = surface_timeseries(comp, fs, min(L, 64), s, seed=seed)
            if float(np.var(base)) > 0:
                ctx.check("C16.other-seed-differs", not np.array_equal(other, base), lambda: dict(c, other_seed=int(s2_)),
                          {"seed": seed, "other": int(s2_)}, key="C16:seed:other")
    # scaling
    cf = c["scale"]
    s2 = build(c, cf)
    for comp in ("z", "u"):
        _, xs = surface_timeseries(comp, fs, L, s2, seed=seed)
        amp = float(np.max(np.abs(series[comp]), initial=0.0))
        ctx.close("C16.scale-sqrt(c)", xs, np.sqrt(cf) * series[comp], atol=1e-12 * amp * np.sqrt(cf) + 1e-300, rtol=1e-11,
                  case=wit, key="C16:scale")


def judge_batch(ctx, c):
    """a spectrum object holding several spectra (dims (time, frequency[, direction]) - the default layout of the
    create_* functions): one series per member, each carrying the variance of its own resampled spectrum"""
    from ocean_science_utilities.wavespectra.spectrum import create_1d_spectrum, create_2d_spectrum
    from ocean_science_utilities.wavespectra.timeseries import surface_timeseries
    f, e = np.asarray(c["freq"], float), np.asarray(c["e"], float)
    scales = np.asarray(c["member_scales"], float)
    n = len(scales)
    tt = np.arange(n) * 3600
    if c["kind"] == "1d":
        z = np.zeros((n, len(f)))
        s = create_1d_spectrum(f, scales[:, None] * e[None, :], tt, np.zeros(n), np.zeros(n), z, z, z, z, depth=np.full(n, np.inf))
    else:
        nd = int(c["nd"])
        E = np.zeros((n, len(f), nd))
        E[:, :, int(c["bin"])] = scales[:, None] * e[None, :] / (360.0 / nd)
        s = create_2d_spectrum(f, np.arange(nd) * 360.0 / nd, E, tt, np.zeros(n), np.zeros(n), depth=np.full(n, np.inf))
    fs, L, seed = c["fs"], c["L"], c["seed"]
    wit = lambda: dict(c, batch=True)  # noqa
    ctx.case(("batch", c["kind"], n), nontrivial=True, sample={"members": n, "scales": scales, "fs": fs, "L": L})
    for comp in ("z", "w"):
        ok, r = guarded(ctx, "C16.no-exception", lambda: surface_timeseries(comp, fs, L, s, seed=seed), wit, key="C16:exception:batch")
        if not ok:
            return
        x = np.asarray(r[1], float)
        if x.ndim != 2 or x.shape[0] != n:
            ctx.check("C16.len(time)==len(series)", False, wit, {"series_shape": x.shape, "members": n}, key="C16:batch:shape")
            return
        ctx.check("C16.len(time)==len(series)", x.shape[1] == len(r[0]), wit, {"series_shape": x.shape, "len_time": len(r[0])},
                  key="C16:batch:length")
        _, vz, vw = oracle_variances(c, n=x.shape[1])
        want = scales * (vz if comp == "z" else vw)
        ctx.count("C16.batch_members_judged", n)
        ctx.close("C16.var(z)==sum(E*df)" if comp == "z" else "C16.var(w)==sum(w^2*E*df)", np.var(x, axis=1), want,
                  atol=1e-300, rtol=1e-9, case=wit, key="C16:batch:var:" + comp)


def judge_history(ctx, c):
    """the same spectrum object used again: at another sampling rate (same length), and after it was rescaled in place"""
    from ocean_science_utilities.wavespectra.timeseries import surface_timeseries
    fs, L, seed = c["fs"], c["L"], c["seed"]
    if c.get("on_fft_grid"):
        # the spectrum is given exactly on the Fourier grid of the requested series (no resampling needed)
        nfft_ = (L // 2) * 2
        fk_ = np.linspace(0, 0.5 * fs, nfft_ // 2, endpoint=False)
        if len(fk_) >= 3:
            c = dict(c, freq=fk_, e=np.interp(fk_, np.asarray(c["freq"], float), np.asarray(c["e"], float), left=0.0, right=0.0))
            ctx.count("C16.spectra_given_on_the_fourier_grid")
    s = build(c)
    wit = lambda: dict(c, history=True)  # noqa
    ctx.case(("history", c["kind"], "odd" if L % 2 else "even"), nontrivial=True,
             sample={"sequence": "z at fs; z at fs2; multiply(inplace=True); z at fs", "fs": fs, "fs2": c["fs2"], "L": L})
    ok, r1 = guarded(ctx, "C16.no-exception", lambda: surface_timeseries("z", fs, L, s, seed=seed), wit, key="C16:exception")
    ok2, r2 = guarded(ctx, "C16.no-exception", lambda: surface_timeseries("z", c["fs2"], L, s, seed=seed), wit, key="C16:exception")
    if not (ok and ok2):
        return
    ctx.count("C16.histories_on_one_spectrum_object")
    ok1b, r1b = guarded(ctx, "C16.no-exception", lambda: surface_timeseries("z", fs, L, s, seed=seed), wit, key="C16:exception")
    if ok1b:
        ctx.check("C16.same-seed-identical", bool(np.array_equal(np.asarray(r1b[1]), np.asarray(r1[1]))), wit,
                  {"what": "second call on the same object, same arguments"}, key="C16:history:same-call-twice")
    x2 = np.asarray(r2[1], float)
    _, vz2, _ = oracle_variances(c, n=len(x2), fs=c["fs2"])
    ctx.close("C16.var(z)==sum(E*df)", float(np.var(x2)), vz2, atol=1e-300, rtol=1e-9, case=wit, key="C16:history:other-rate")
    cf = float(c["scale"])
    ok3, _ = guarded(ctx, "C16.no-exception", lambda: s.multiply(np.full(s.shape(), cf), inplace=True), wit, key="C16:exception")
    ok4, r4 = guarded(ctx, "C16.no-exception", lambda: surface_timeseries("z", fs, L, s, seed=seed), wit, key="C16:exception")
    if ok3 and ok4:
        x1, x4 = np.asarray(r1[1], float), np.asarray(r4[1], float)
        amp = float(np.max(np.abs(x1), initial=0.0))
        ctx.close("C16.scale-sqrt(c)", x4, np.sqrt(cf) * x1, atol=1e-12 * amp * np.sqrt(cf) + 1e-300, rtol=1e-11, case=wit,
                  key="C16:history:rescaled-in-place")


def run_shard(ctx, shard):
    rng = ctx.rng()
    for i in range(shard["n"]):
        c = make_case(rng)
        judge(ctx, c)
        if i % 3 == 0:
            judge_history(ctx, dict(c, fs2=float(c["fs"] * rng.choice([0.5, 2.0, 1.3, 0.2])), on_fft_grid=bool(rng.uniform() < 0.5)))
        if i % 3 == 1:
            judge_batch(ctx, dict(c, member_scales=rng.uniform(0.2, 3.0, int(rng.integers(2, 5)))))


def replay(ctx, case):
    if case.get("batch"):
        judge_batch(ctx, case)
    elif case.get("history"):
        judge_history(ctx, case)
    else:
        judge(ctx, case)
