"""C05 - directional estimators return valid distributions and conserve energy."""
from __future__ import annotations

import numpy as np

from ..core import guarded
from ..gens import spectra as gs

PROPERTY = "C05"
LEVEL = "exploration"
RULE = ("moment quadruples: realisable ones computed from von-Mises mixtures (isotropic .. 2 degrees wide, 1-2 lobes) "
        "and unrealisable/noisy ones uniform in the unit disc x [-1,1]^2 (what buoys deliver; these force the Newton "
        "solver's non-positive-definite fallback), a1^2+b1^2 up to 1-1e-9; N in 8..180 uniform direction bins; input "
        "shapes (), (nf,), (nt,nf), (nt,nx,nf); all four variants (mem, mem2/newton, mem2/scipy, mem2/approximate). "
        "Spectrum level: 1D -> 2D -> integrate back, batch row vs the same row alone. distinct = (variant, N, shape "
        "rank, moment class); non-trivial = non-isotropic moments.")
ASSUMPTIONS = ["finite moments with a1^2+b1^2<1; direction grid np.linspace(0,360,N,endpoint=False) or a rotated "
               "uniform grid", "a worker process dying inside JIT code counts as 'raised'"]
REQUIRED_MONITORS = ["C05.no-exception", "C05.finite", "C05.non-negative", "C05.integrates-to-one",
                     "C05.default-call-unaffected-by-earlier-config", "C05.module-defaults-unchanged",
                     "C05.spectrum:e-conserved", "C05.spectrum:m0-conserved", "C05.spectrum:carry-over", "C05.spectrum:direction-grid",
                     "C05.batch==single"]
REQUIRED_REACH = ["estimate.py:estimate_directional_distribution", "mem.py:_mem", "mem2.py:mem2",
                  "mem2.py:mem2_scipy_root_finder", "spectrum.py:FrequencySpectrum.as_frequency_direction_spectrum"]
REQUIRED_COUNTERS = {"C05.all_N_8..180_enumerated": 1, "C05.unrealisable_inputs": 5, "C05.calls:mem": 5, "C05.calls:mem2:newton": 5,
                     "C05.calls:mem2:scipy": 5, "C05.calls:mem2:approximate": 5, "C05.scalar_inputs": 1}
TIMEOUT = {"quick": 900, "thorough": 3600}
N = {"quick": (8, 30), "thorough": (15, 500)}
VARIANTS = [("mem", None), ("mem2", "newton"), ("mem2", "scipy"), ("mem2", "approximate")]
WARMUP_SHARD = {"n": 2, "warmup": True}


def plan(tier, seed):
    ns, per = N[tier]
    shards = [{"n": per} for _ in range(ns)] + [{"n": 0, "all_N": True}]
    if tier == "thorough":
        shards.append({"n": per // 3, "env": {"NUMBA_BOUNDSCHECK": "1"}})
    return shards


def vonmises_moments(rng, shape):
    """moments of 1-2 lobe von-Mises mixtures + background, computed on a dense grid"""
    th = np.linspace(0, 2 * np.pi, 2048, endpoint=False)
    out = np.empty(shape + (4,))
    flat = out.reshape(-1, 4)
    for i in range(flat.shape[0]):
        kappa = 10 ** rng.uniform(-1, 2.9)  # ~ isotropic .. ~2 degrees
        m1 = rng.uniform(0, 2 * np.pi)
        D = np.exp(kappa * (np.cos(th - m1) - 1))
        if rng.uniform() < 0.4:
            D = D / D.sum() + rng.uniform(0.1, 1) * (lambda q: q / q.sum())(
                np.exp(10 ** rng.uniform(-1, 2.5) * (np.cos(th - rng.uniform(0, 2 * np.pi)) - 1)))
        D = D / D.sum() + rng.uniform(0, 0.3) / len(th)
        D = D / D.sum()
        flat[i] = [np.sum(D * np.cos(th)), np.sum(D * np.sin(th)), np.sum(D * np.cos(2 * th)), np.sum(D * np.sin(2 * th))]
    return out[..., 0], out[..., 1], out[..., 2], out[..., 3]


def noisy_moments(rng, shape, rmax=1 - 1e-9):
    r = rmax * np.sqrt(rng.uniform(0, 1, shape))
    if rng.uniform() < 0.2:
        r = np.full(shape, rmax)
    phi = rng.uniform(-np.pi, np.pi, shape)
    a2, b2 = rng.uniform(-1, 1, shape), rng.uniform(-1, 1, shape)
    if rng.uniform() < 0.25:
        # far outside the realisable set: r1 close to one and second moments near the corners of [-1,1]^2; the
        # MEM2 iteration collapses onto a single bin (singular Jacobian, vanishing update)
        r = rmax * rng.uniform(0.9, 1, shape)
        a2 = rng.choice([-1.0, 1.0], shape) * rng.uniform(0.8, 1, shape)
        b2 = rng.choice([-1.0, 1.0], shape) * rng.uniform(0.8, 1, shape)
    return r * np.cos(phi), r * np.sin(phi), a2, b2


COLLAPSE_WITNESSES = [(-0.2594155172383735, -0.9573557954098488, -0.9742075595161157, 0.912474223829715, 36),
                      (-0.2594155172383735, -0.9573557954098488, -0.9742075595161157, 0.912474223829715, 180)]


def make_case(rng):
    rank = int(rng.choice([0, 1, 1, 2, 3]))
    shape = [(), (int(rng.integers(1, 7)),), (int(rng.integers(1, 4)), int(rng.integers(1, 6))),
             (int(rng.integers(1, 3)), int(rng.integers(1, 3)), int(rng.integers(1, 5)))][rank]
    mclass = str(rng.choice(["vonmises", "noisy", "noisy"]))
    a1, b1, a2, b2 = (vonmises_moments if mclass == "vonmises" else noisy_moments)(rng, shape)
    nd = int(rng.choice([8, 12, 24, 36, 37, 72, 90, 180]))
    start = float(rng.choice([0.0, 0.0, 5.0, -180.0, 137.25]))
    if rng.uniform() < 0.06:
        # neighbourhood of an input found by the thorough tier (uniform sampling hits this region about once in
        # 10^4 quadruples): the Newton iteration collapses onto one bin half way between two grid directions
        w = COLLAPSE_WITNESSES[int(rng.integers(0, len(COLLAPSE_WITNESSES)))]
        q = np.asarray(w[:4])[:, None] + 10 ** rng.uniform(-9, -3) * rng.uniform(-1, 1, (4, 3))
        mclass, rank, nd, start = "collapse-witness", 1, int(w[4]), 0.0
        a1, b1, a2, b2 = q
    if mclass == "vonmises" and rng.uniform() < 0.15:
        # exactly isotropic at some frequencies: all four moments exactly zero (the uniform density 1/360 per degree)
        z = rng.uniform(0, 1, np.shape(a1)) < 0.5
        a1, b1, a2, b2 = (np.where(z, 0.0, np.asarray(x)) for x in (a1, b1, a2, b2))
        mclass = "vonmises+exactly-isotropic"
    # the same uniform grid written with values in [0,360): the 360 -> 0 seam then lies inside the array
    wrap = bool(start != 0.0 and rng.uniform() < 0.5)
    return {"shape_rank": rank, "mclass": mclass, "a1": np.asarray(a1), "b1": np.asarray(b1), "a2": np.asarray(a2),
            "b2": np.asarray(b2), "nd": nd, "start": start, "wrap": wrap}


def unrealisable(c):
    """number of quadruples for which the Lygre-Krogstad closed form has a negative numerator, i.e. no
    non-negative distribution has these four moments (noisy buoy data)"""
    a1, b1, a2, b2 = (np.atleast_1d(c[k]).reshape(-1) for k in ("a1", "b1", "a2", "b2"))
    c1, c2 = a1 + 1j * b1, a2 + 1j * b2
    p1 = (c1 - c2 * np.conj(c1)) / (1 - np.abs(c1) ** 2)
    p2 = c2 - p1 * c1
    return int(np.sum(np.real(1 - p1 * np.conj(c1) - p2 * np.conj(c2)) < 0))


def shadow_fallbacks(c):
    """informational: run the pure-Python body of the Newton solver (dispatcher.py_func) with a counting
    wrapper around solve_cholesky to see how many inputs force the least-squares fallback branch"""
    try:
        from ocean_science_utilities.wavespectra.estimators import mem2 as m2
        d = np.deg2rad(c["start"] + np.arange(c["nd"]) * 360.0 / c["nd"])
        tw = np.stack([np.cos(d), np.sin(d), np.cos(2 * d), np.sin(2 * d)])
        inc = np.full(c["nd"], 2 * np.pi / c["nd"])
        a1, b1, a2, b2 = (np.atleast_1d(c[k]).reshape(-1)[:3] for k in ("a1", "b1", "a2", "b2"))
        guess = np.asarray(m2.initial_value(a1, b1, a2, b2))
        hits = [0]
        real = m2.solve_cholesky

        def counting(mat, rhs):
            try:
                return real(mat, rhs)
            except Exception:
                hits[0] += 1
                raise
        saved = {}
        for name in ("solve_cholesky", "newton_update"):
            if hasattr(m2, name):
                saved[name] = getattr(m2, name)
        m2.solve_cholesky = counting
        if "newton_update" in saved:
            m2.newton_update = saved["newton_update"].py_func
        n = 0
        try:
            for i in range(len(a1)):
                before = hits[0]
                try:
                    m2.mem2_newton_solver.py_func(np.array([a1[i], b1[i], a2[i], b2[i]]), guess[i], inc, tw, None, False)
                except Exception:
                    pass
                n += hits[0] > before
        finally:
            for name, v in saved.items():
                setattr(m2, name, v)
        return n
    except Exception:
        return 0


def grid_of(c):
    nd = int(c["nd"])
    d = c["start"] + np.arange(nd) * 360.0 / nd
    if c.get("wrap"):
        d = d % 360.0
    return d


CONFIGS = [{"atol": 0.05}, {"atol": 0.1}, {"use_mem_when_failing_to_converge": False, "atol": 0.05}, {"max_iter": 2},
           {"max_line_search_depth": 1}, {"rcond": 1e-2}]


def judge_config_history(ctx, c):
    """the rarely used solver_config keyword of one call must not change what later default calls return: "each
    spectrum gets exactly the result it would get alone". Module-level defaults are watched directly as well."""
    from ocean_science_utilities.wavespectra.estimators.estimate import estimate_directional_distribution as edd
    from ocean_science_utilities.wavespectra.estimators import mem2 as m2
    d = grid_of(c)
    a1, b1, a2, b2 = (c[k] for k in ("a1", "b1", "a2", "b2"))
    wit = lambda: dict(c, config_history=True)  # noqa
    ctx.case(("config-history", c["mclass"], int(c["nd"]), int(c["cfg"]), c["cfg_method"]), nontrivial=True,
             sample={"config": CONFIGS[int(c["cfg"])], "method_of_configured_call": c["cfg_method"], "N": int(c["nd"])})

    def defaults():
        out = {}
        for method, sm in VARIANTS:
            kw = {} if sm is None else {"solution_method": sm}
            try:
                out[(method, sm)] = np.asarray(edd(a1, b1, a2, b2, d, method, **kw), float)
            except Exception as e:  # noqa
                out[(method, sm)] = repr(e)[:80]
        return out
    snap0 = dict(getattr(m2, "NUMERICS", {}))
    r0 = defaults()
    cfg = dict(CONFIGS[int(c["cfg"])])
    try:
        edd(a1, b1, a2, b2, d, "mem2", solution_method=c["cfg_method"], solver_config=cfg)
    except Exception:
        ctx.count("C05.configured_call_raised(allowed)")
    ctx.count("C05.config_histories")
    snap1 = dict(getattr(m2, "NUMERICS", {}))
    ctx.check("C05.module-defaults-unchanged", snap0 == snap1, wit, {"before": snap0, "after": snap1, "config": cfg},
              key="C05:config-history:module-defaults")
    for attempt in range(3):
        r1 = defaults()
        bad = []
        for k in r0:
            a, b = r0[k], r1[k]
            if isinstance(a, str) or isinstance(b, str):
                if isinstance(a, str) != isinstance(b, str):
                    bad.append(k)
            elif a.shape != b.shape or not np.allclose(a, b, rtol=1e-9, atol=1e-12, equal_nan=True):
                bad.append(k)
        if not bad:
            break
    ctx.check("C05.default-call-unaffected-by-earlier-config", not bad, wit,
              {"variants_that_changed": [list(map(str, k)) for k in bad], "config": cfg}, key="C05:config-history:result")
    # leave the module as we found it so that later cases are judged on their own
    if snap0 != snap1 and hasattr(m2, "NUMERICS"):
        m2.NUMERICS.clear()
        m2.NUMERICS.update(snap0)


def judge(ctx, c, variants=VARIANTS):
    from ocean_science_utilities.wavespectra.estimators.estimate import estimate_directional_distribution as edd
    nd = int(c["nd"])
    d = grid_of(c)
    a1, b1, a2, b2 = (c[k] for k in ("a1", "b1", "a2", "b2"))
    rank = int(c["shape_rank"])
    if rank == 0:
        ctx.count("C05.scalar_inputs")
    ctx.count("C05.unrealisable_inputs", unrealisable(c))
    if c["mclass"] == "noisy" and ctx.counters.get("C05.shadow_runs", 0) < 12:
        ctx.count("C05.shadow_runs")
        ctx.count("C05.inputs_forcing_newton_fallback(shadow)", shadow_fallbacks(c))
    want_shape = tuple(np.shape(a1)) + (nd,)
    for method, sm in variants:
        tag = method if sm is None else f"{method}:{sm}"
        kw = {} if sm is None else {"solution_method": sm}
        wit = lambda: dict(c, method=method, solution_method=sm)  # noqa
        ctx.case((tag, nd, rank, c["mclass"]), nontrivial=bool(np.any(np.hypot(a1, b1) > 0.05)),
                 sample={"method": tag, "N": nd, "a1": a1, "b1": b1, "a2": a2, "b2": b2})
        ctx.count(f"C05.calls:{tag}")
        ok, D = guarded(ctx, "C05.no-exception", lambda: edd(a1, b1, a2, b2, d, method, **kw), wit,
                        key=f"C05:raised:{tag}")
        if not ok:
            continue
        D = np.asarray(D, float)
        if D.shape != want_shape:
            ctx.check("C05.shape", False, wit, {"got": D.shape, "want": want_shape}, key=f"C05:shape:{tag}")
            continue
        fin = bool(np.all(np.isfinite(D)))
        ctx.check("C05.finite", fin, wit, {"method": tag}, key=f"C05:finite:{tag}")
        if not fin:
            continue
        mx = np.max(D, axis=-1, keepdims=True)
        ctx.check("C05.non-negative", bool(np.all(D >= -1e-12 * mx)), wit, {"min": float(D.min())},
                  key=f"C05:negative:{tag}")
        integ = D.sum(axis=-1) * (360.0 / nd)
        ctx.close("C05.integrates-to-one", integ, np.ones_like(integ), atol=1e-9, case=wit, key=f"C05:normalisation:{tag}")
        if rank >= 2 and min(np.shape(a1)[:2]) > 1 and sm in (None, "approximate"):
            # (closed-form variants only: the iterative ones amplify one-ulp differences of the vectorised first guess
            # on unrealisable moments - the clean tree gave a reproducible 1e-3 difference for one noisy quadruple)
            # the same numbers in Fortran memory order (transposed datasets, loadmat output): the same result per member
            fa = [np.asfortranarray(x) for x in (a1, b1, a2, b2)]
            okf, Df = guarded(ctx, "C05.no-exception", lambda: edd(fa[0], fa[1], fa[2], fa[3], d, method, **kw), wit,
                              key=f"C05:raised:{tag}")
            if okf:
                ctx.count("C05.fortran_ordered_inputs")
                Df = np.asarray(Df, float)
                ctx.check("C05.memory-order-does-not-matter", Df.shape == D.shape and bool(np.allclose(Df, D, rtol=1e-9, atol=1e-12 * float(mx.max()))),
                          wit, {"method": tag}, key=f"C05:fortran-order:{tag}")


def judge_spectrum(ctx, c):
    g = c["gen"]
    s = gs.build(g)
    if c.get("subsecond") and "time" in s.dataset:
        # time stamps with fractional seconds must be carried over as they are
        s.dataset["time"] = s.dataset["time"] + np.timedelta64(int(c["subsecond"]), "ms")
    nd = int(c["nd"])
    for method, sm in c["variants"]:
        tag = method if sm is None else f"{method}:{sm}"
        wit = lambda: {"spectrum": c, "method": tag}  # noqa
        ctx.case(("spectrum", tag, nd, g["layout"]), nontrivial=True,
                 sample={"layout": g["layout"], "N": nd, "method": tag})
        kw = {"method": method}
        if sm:
            kw["solution_method"] = sm
        ok, s2 = guarded(ctx, "C05.no-exception", lambda: s.as_frequency_direction_spectrum(nd, **kw), wit,
                         key=f"C05:raised:spectrum:{tag}")
        if not ok:
            continue
        dgot = np.asarray(s2.direction.values, float)
        ctx.check("C05.spectrum:direction-grid", dgot.shape == (nd,) and bool(np.allclose(dgot, np.arange(nd) * 360.0 / nd, atol=1e-9)),
                  wit, {"N": nd, "got_len": int(dgot.size)}, key=f"C05:spectrum:direction-grid:{tag}")
        e0 = np.asarray(s.e.values, float)
        scale = float(np.nanmax(np.abs(e0), initial=1.0))
        ctx.close("C05.spectrum:e-conserved", s2.e.values, e0, atol=1e-9 * scale, rtol=1e-9, case=wit,
                  key=f"C05:spectrum:e:{tag}")
        ctx.close("C05.spectrum:m0-conserved", s2.m0().values, s.m0().values, atol=1e-300, rtol=1e-9, case=wit,
                  key=f"C05:spectrum:m0:{tag}")
        for v in ("time", "latitude", "longitude", "depth"):
            a, b = s.dataset[v], s2.dataset[v]
            same = a.dims == b.dims and (np.array_equal(a.values, b.values, equal_nan=True) if a.values.dtype.kind == "f"
                                         else np.array_equal(a.values, b.values))
            ctx.check("C05.spectrum:carry-over", bool(same), wit, {"var": v}, key=f"C05:spectrum:carry:{tag}")
        # batch independence
        from .c04 import single_point_cases
        E2 = np.asarray(s2.variance_density.values, float)
        lead = np.asarray(g["E"]).shape[:-1]
        if lead and g["layout"] != "flat":
            for j, (ix, sc) in enumerate(single_point_cases(g)):
                if j >= 3:
                    break
                s1 = gs.build(sc)
                ok1, r1 = guarded(ctx, "C05.no-exception", lambda: s1.as_frequency_direction_spectrum(nd, **kw), wit,
                                  key=f"C05:raised:spectrum:{tag}")
                if ok1:
                    a = np.asarray(r1.variance_density.values, float)
                    b = E2[ix]
                    tol = 1e-12 if sm != "scipy" else 1e-9
                    same = a.shape == b.shape and bool(np.allclose(b, a, rtol=tol, atol=tol * float(np.max(np.abs(a), initial=1.0))))
                    if not same:
                        # a violation must be reproducible: one sweep run produced a 3e-4 difference for the Newton
                        # variant that could not be reproduced in 20 further runs of the same case (identical inputs
                        # giving different outputs - an artefact of exception handling in the JIT runtime, see
                        # DESIGN 2.8); re-run both members and only report a difference that shows up every time
                        for _ in range(2):
                            b = np.asarray(s.as_frequency_direction_spectrum(nd, **kw).variance_density.values, float)[ix]
                            a = np.asarray(s1.as_frequency_direction_spectrum(nd, **kw).variance_density.values, float)
                            if np.allclose(b, a, rtol=tol, atol=tol * float(np.max(np.abs(a), initial=1.0))):
                                ctx.count("C05.nondeterministic_batch_vs_single_difference(not reproducible)")
                                same = True
                                break
                    ctx.check("C05.batch==single", same, lambda: {"spectrum": c, "method": tag, "point": list(ix)},
                              {"got": b, "want": a}, key=f"C05:batch:{tag}")


def make_spectrum_case(rng):
    layout = str(rng.choice(["scalar", "time", "time_lat"]))
    g = gs.case_1d(rng, layout=layout, nf=int(rng.integers(2, 8)), depth_kind="mixed", allow_zero=False, rmax=0.95)
    if rng.uniform() < 0.5:
        a1, b1, a2, b2 = vonmises_moments(rng, np.asarray(g["E"]).shape)
        g.update({"a1": a1, "b1": b1, "a2": a2, "b2": b2})
    variants = [VARIANTS[int(i)] for i in rng.choice(4, size=2, replace=False)]
    return {"gen": g, "nd": int(rng.choice([12, 24, 36, int(rng.integers(8, 181))])), "variants": variants,
            "subsecond": int(rng.choice([0, 370, 999]))}


def all_N(ctx, rng):
    """every N in 8..180 once (MEM, one small spectrum): the direction grid has exactly N bins and energy is conserved"""
    g = gs.case_1d(rng, layout="time", nf=3, depth_kind="finite", allow_zero=False, rmax=0.9)
    for nd in range(8, 181):
        judge_spectrum(ctx, {"gen": g, "nd": nd, "variants": [("mem", None)]})
    ctx.count("C05.all_N_8..180_enumerated")


def run_shard(ctx, shard):
    rng = ctx.rng()
    if shard.get("all_N"):
        all_N(ctx, rng)
        return
    for i in range(shard["n"]):
        if i % 4 == 3 and not shard.get("warmup"):
            judge_spectrum(ctx, make_spectrum_case(rng))
        else:
            c = make_case(rng)
            judge(ctx, c)
            if i % 4 == 1 and not shard.get("warmup"):
                c = dict(c, cfg=int(rng.integers(0, len(CONFIGS))), cfg_method=str(rng.choice(["newton", "newton", "scipy", "approximate"])))
                judge_config_history(ctx, c)


def replay(ctx, case):
    if "spectrum" in case:
        judge_spectrum(ctx, case["spectrum"])
    elif case.get("config_history"):
        judge_config_history(ctx, case)
    else:
        m, sm = case.get("method"), case.get("solution_method")
        judge(ctx, case, [(m, sm)] if m else VARIANTS)
