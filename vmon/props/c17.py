"""C17 - time conversions denote the same UTC instant for every input representation."""
from __future__ import annotations

import time as _time
from datetime import datetime, timedelta, timezone

import numpy as np

from ..core import guarded

PROPERTY = "C17"
LEVEL = "exploration"
RULE = ("instants drawn as integer microseconds since the epoch (1970..2100; whole and fractional seconds; "
        "month/year/leap-day boundaries), rendered by the generator in every representation: aware datetime "
        "(offsets -12:00..+14:00 incl. :30/:45), naive datetime, ISO strings with Z / numeric offset / no zone "
        "(with and without fraction), epoch int/float (python and numpy scalars), datetime64[s/ms/us/ns], and "
        "list/tuple/ndarray/DataArray/Series incl. heterogeneous lists; every valid packed time and date integer is enumerated; the process runs under several local "
        "time zones (TZ env) so that naive/local confusion is observable. distinct = (representation, "
        "container, fractional?, TZ); non-trivial = instant not at the epoch and offset/zone != local.")
ASSUMPTIONS = ["float epoch seconds are exact to 1 microsecond only (float64)", "datetime64 inputs are compared "
               "after flooring to whole seconds, as the property states"]
REQUIRED_MONITORS = ["C17.to_datetime_utc==instant", "C17.tz-aware-utc", "C17.sequence-elementwise", "C17.none",
                     "C17.roundtrip:datetime64", "C17.roundtrip:iso", "C17.packed", "C17.packed:all-valid-integers"]
REQUIRED_COUNTERS = {"C17.packed_integers_enumerated": 150000}
REQUIRED_REACH = ["time.py:to_datetime_utc", "time.py:to_datetime64", "time.py:datetime_to_iso_time_string",
                  "time.py:datetime_from_time_and_date_integers"]
TIMEOUT = {"quick": 300, "thorough": 1800}
N = {"quick": 10000, "thorough": 2000000}
TZS = ["UTC", "PST8PDT", "IST-5:30", "NZST-12NZDT", "XXX+9:30"]
EPOCH = datetime(1970, 1, 1, tzinfo=timezone.utc)
MAX_US = int((datetime(2100, 12, 31, 23, 59, 59, tzinfo=timezone.utc) - EPOCH).total_seconds()) * 10 ** 6


def plan(tier, seed):
    shards = []
    reps = 1 if tier == "quick" else 3
    shards.append({"n": 0, "packed_exhaustive": True, "env": {"VERIF_TZ": "PST8PDT", "TZ": "PST8PDT"}, "tz": "PST8PDT"})
    for r in range(reps):
        for tz in TZS:
            shards.append({"n": N[tier] // (len(TZS) * reps), "env": {"VERIF_TZ": tz, "TZ": tz}, "tz": tz})
    return shards


def draw_instant(rng):
    kind = str(rng.choice(["uniform", "whole", "boundary", "leap", "near-epoch"]))
    if kind == "uniform":
        us = int(rng.integers(0, MAX_US))
    elif kind == "whole":
        us = int(rng.integers(0, MAX_US // 10 ** 6)) * 10 ** 6
    elif kind == "boundary":
        y = int(rng.integers(1970, 2100))
        mth = int(rng.integers(1, 13))
        base = datetime(y, mth, 1, tzinfo=timezone.utc)
        us = int((base - EPOCH).total_seconds()) * 10 ** 6 + int(rng.choice([-1, 0, 1, -10 ** 6, 10 ** 6, 999999]))
        us = max(us, 0)
    elif kind == "leap":
        y = int(rng.choice([1972, 1996, 2000, 2024, 2096]))
        base = datetime(y, 2, 29, tzinfo=timezone.utc) + timedelta(seconds=int(rng.integers(0, 86400)))
        us = int((base - EPOCH).total_seconds()) * 10 ** 6 + int(rng.integers(0, 10 ** 6))
    else:
        us = int(rng.integers(0, 3 * 86400 * 10 ** 6))
        if rng.uniform() < 0.25:
            us = 0  # the epoch itself: 0, 0.0 and datetime64(0) are instants, not "missing"
    return kind, us


def expected(us):
    return EPOCH + timedelta(microseconds=us)


def offset(rng):
    hours = int(rng.integers(-12, 15))
    minutes = int(rng.choice([0, 0, 30, 45])) if -12 < hours < 14 else 0
    sign = -1 if hours < 0 else 1
    return timezone(timedelta(hours=hours, minutes=sign * minutes))


def iso_offset_str(tz):
    off = tz.utcoffset(None)
    tot = int(off.total_seconds())
    sign = "+" if tot >= 0 else "-"
    tot = abs(tot)
    return f"{sign}{tot // 3600:02d}:{(tot % 3600) // 60:02d}"


REPRS = ["aware", "naive", "iso_z", "iso_offset", "iso_naive", "epoch_int", "epoch_float", "np_int", "np_float",
         "dt64_s", "dt64_ms", "dt64_us", "dt64_ns"]


def render(rng, us, rep):
    """returns (value, expected datetime, tolerance_us)"""
    exp = expected(us)
    whole = us - us % 10 ** 6
    if rep == "aware":
        return exp.astimezone(offset(rng)), exp, 0
    if rep == "naive":
        return exp.replace(tzinfo=None), exp, 0
    frac = us % 10 ** 6 != 0
    base = exp.strftime("%Y-%m-%dT%H:%M:%S") + (f".{us % 10 ** 6:06d}" if frac else "")
    if rep == "iso_z":
        return base + "Z", exp, 0
    if rep == "iso_offset":
        tz = offset(rng)
        loc = exp.astimezone(tz)
        s = loc.strftime("%Y-%m-%dT%H:%M:%S") + (f".{us % 10 ** 6:06d}" if frac else "") + iso_offset_str(tz)
        return s, exp, 0
    if rep == "iso_naive":
        return base, exp, 0
    if rep == "epoch_int":
        return whole // 10 ** 6, expected(whole), 0
    if rep == "epoch_float":
        return us / 1e6, exp, 1
    if rep == "np_int":
        return np.int64(whole // 10 ** 6), expected(whole), 0
    if rep == "np_float":
        return np.float64(us / 1e6), exp, 1
    if rep == "dt64_s":
        return np.datetime64(whole // 10 ** 6, "s"), expected(whole), 0
    if rep == "dt64_ms":
        return np.datetime64(us // 1000, "ms"), expected(whole), 0
    if rep == "dt64_us":
        return np.datetime64(us, "us"), expected(whole), 0
    if rep == "dt64_ns":
        return np.datetime64(us * 1000, "ns"), expected(whole), 0
    raise ValueError(rep)


def same(got, exp, tol_us):
    if not isinstance(got, datetime) or got.tzinfo is None:
        return False
    d = got - exp
    return abs(d) <= timedelta(microseconds=tol_us)


def is_utc(got):
    return isinstance(got, datetime) and got.tzinfo is not None and got.utcoffset() == timedelta(0)


def judge_scalar(ctx, case):
    from ocean_science_utilities.tools import time as tt
    rng = np.random.default_rng(case["sub"])
    us, rep, tz = case["us"], case["rep"], case["tz"]
    val, exp, tol = render(rng, us, rep)
    nontrivial = us != 0
    ctx.case((rep, "scalar", us % 10 ** 6 != 0, tz), nontrivial=nontrivial,
             sample={"rep": rep, "value": repr(val), "expected": exp.isoformat(), "TZ": tz})
    ok, got = guarded(ctx, "C17.no-exception", lambda: tt.to_datetime_utc(val), case, key="C17:exception:" + rep)
    if not ok:
        return
    ctx.check("C17.to_datetime_utc==instant", same(got, exp, tol), case,
              {"value": repr(val), "got": repr(got), "expected": exp.isoformat()}, key="C17:instant:" + rep)
    ctx.check("C17.tz-aware-utc", is_utc(got), case, {"got": repr(got)}, key="C17:utc")
    # round trip through datetime64 (whole seconds, ns dtype)
    ok, d64 = guarded(ctx, "C17.no-exception", lambda: tt.to_datetime64(val), case, key="C17:exception:to_datetime64")
    if ok:
        want = np.datetime64((int((exp - EPOCH) / timedelta(microseconds=1)) // 10 ** 6), "s")
        if tol and not isinstance(d64, np.ndarray):
            # float input within 1us of a whole second may floor either way
            near = (us % 10 ** 6) in (0, 1, 999999)
        else:
            near = False
        good = isinstance(d64, np.datetime64) and d64.dtype == np.dtype("<M8[ns]") and (d64 == want or near)
        ctx.check("C17.roundtrip:datetime64", bool(good), case,
                  {"got": repr(d64), "want": str(want)}, key="C17:dt64")
        if good:
            ok2, back = guarded(ctx, "C17.no-exception", lambda: tt.to_datetime_utc(d64), case, key="C17:exception:back")
            if ok2 and not near:
                ctx.check("C17.roundtrip:datetime64", same(back, expected(int(want.astype("int64")) * 10 ** 6), 0),
                          case, {"back": repr(back)}, key="C17:dt64:back")
    # ISO round trip (exact to the microsecond)
    ok, s = guarded(ctx, "C17.no-exception", lambda: tt.datetime_to_iso_time_string(val), case, key="C17:exception:iso")
    if ok:
        ok2, back = guarded(ctx, "C17.no-exception", lambda: tt.to_datetime_utc(s), case, key="C17:exception:iso-parse")
        if ok2:
            ctx.check("C17.roundtrip:iso", isinstance(s, str) and same(back, got, 0) and is_utc(back), case,
                      {"iso": s, "back": repr(back), "orig": repr(got)}, key="C17:iso")


def judge_sequence(ctx, case):
    import pandas as pd
    import xarray
    from ocean_science_utilities.tools import time as tt
    rng = np.random.default_rng(case["sub"])
    container, tz = case["container"], case["tz"]
    uss, reps = case["uss"], case["reps"]
    vals, exps, tols = [], [], []
    for us, rep in zip(uss, reps):
        v, e, t = render(rng, us, rep)
        vals.append(v), exps.append(e), tols.append(t)
    if container == "list":
        seq = list(vals)
    elif container == "tuple":
        seq = tuple(vals)
    elif container == "ndarray":
        seq = np.array(vals) if reps[0].startswith(("dt64", "epoch", "np_")) else np.array(vals, dtype=object)
        if seq.dtype.kind == "M":
            ctx.count(f"C17.ndarray_unit:{seq.dtype}")
            exps = [expected((int((e - EPOCH) / timedelta(microseconds=1)) // 10 ** 6) * 10 ** 6) for e in exps]
    elif container == "dataarray":
        seq = xarray.DataArray(np.array(vals), dims="time")
        ctx.count(f"C17.dataarray_unit:{seq.values.dtype}")
    elif container == "series":
        seq = pd.Series(np.array(vals))
        ctx.count(f"C17.series_unit:{seq.values.dtype}")
    ctx.case(("seq", container, reps[0] if len(set(reps)) == 1 else "mixed", tz), nontrivial=len(vals) > 1,
             sample={"container": container, "values": [repr(v) for v in vals[:4]]})
    ok, got = guarded(ctx, "C17.no-exception", lambda: tt.to_datetime_utc(seq), case, key="C17:exception:seq:" + container)
    if not ok:
        return
    good = hasattr(got, "__len__") and len(got) == len(vals) and all(
        same(g, e, t) and is_utc(g) for g, e, t in zip(got, exps, tols))
    ctx.check("C17.sequence-elementwise", bool(good), case, {"got": [repr(g) for g in list(got)[:4]],
                                                             "expected": [e.isoformat() for e in exps[:4]]},
              key="C17:sequence:" + container)
    ok, d64 = guarded(ctx, "C17.no-exception", lambda: tt.to_datetime64(seq), case, key="C17:exception:seq64")
    if ok and not any(tols):
        want = np.array([np.datetime64(int((e - EPOCH) / timedelta(microseconds=1)) // 10 ** 6, "s") for e in exps]).astype("<M8[ns]")
        good = isinstance(d64, np.ndarray) and d64.dtype == np.dtype("<M8[ns]") and np.array_equal(d64, want)
        ctx.check("C17.roundtrip:datetime64", bool(good), case, {"got": repr(d64)[:300]}, key="C17:dt64:seq")


def judge_packed(ctx, case):
    from ocean_science_utilities.tools import time as tt
    y, mo, d, h, mi, s = case["fields"]
    dfmt, tfmt = case["dfmt"], case["tfmt"]
    dint = y * 10000 + mo * 100 + d if dfmt == "yyyymmdd" else (y - 2000) * 10000 + mo * 100 + d
    if tfmt == "hhmmss":
        tint = h * 10000 + mi * 100 + s
    elif tfmt == "hhmm":
        tint, s = h * 100 + mi, 0
    else:
        tint, mi, s = h, 0, 0
    exp = datetime(y, mo, d, h, mi, s, tzinfo=timezone.utc)
    ctx.case(("packed", dfmt, tfmt, case["tz"]), nontrivial=True, sample={"date_int": dint, "time_int": tint,
                                                                           "expected": exp.isoformat()})
    ok, got = guarded(ctx, "C17.no-exception", lambda: tt.datetime_from_time_and_date_integers(dint, tint), case,
                      key="C17:exception:packed")
    if ok:
        ctx.check("C17.packed", same(got, exp, 0) and is_utc(got), case,
                  {"date_int": dint, "time_int": tint, "got": repr(got), "expected": exp.isoformat()}, key="C17:packed")
    ok, g64 = guarded(ctx, "C17.no-exception",
                      lambda: tt.datetime_from_time_and_date_integers(dint, tint, as_datetime64=True), case,
                      key="C17:exception:packed64")
    if ok:
        want = np.datetime64(int((exp - EPOCH).total_seconds()), "s")
        ctx.check("C17.packed", bool(g64 == want), case, {"got": repr(g64)}, key="C17:packed64")
    ok, td = guarded(ctx, "C17.no-exception", lambda: tt.time_from_timeint(tint), case, key="C17:exception:packed")
    if ok:
        ctx.check("C17.packed", td == timedelta(hours=h, minutes=mi, seconds=s), case, {"td": repr(td)}, key="C17:packed:time")
    ok, dd = guarded(ctx, "C17.no-exception", lambda: tt.date_from_dateint(dint), case, key="C17:exception:packed")
    if ok:
        ctx.check("C17.packed", same(dd, datetime(y, mo, d, tzinfo=timezone.utc), 0), case, {"d": repr(dd)},
                  key="C17:packed:date")


def gen_packed(rng, tz):
    dfmt = str(rng.choice(["yyyymmdd", "yymmdd"]))
    y = int(rng.integers(1970, 2101)) if dfmt == "yyyymmdd" else int(rng.integers(2000, 2100))
    mo = int(rng.integers(1, 13))
    dmax = [31, 29 if (y % 4 == 0 and (y % 100 != 0 or y % 400 == 0)) else 28, 31, 30, 31, 30, 31, 31, 30, 31, 30, 31][mo - 1]
    d = int(rng.integers(1, dmax + 1))
    tfmt = str(rng.choice(["hhmmss", "hhmm", "hh"]))
    h, mi, s = int(rng.integers(0, 24)), int(rng.integers(0, 60)), int(rng.integers(0, 60))
    # keep only encodings that the documented rule decodes unambiguously
    if tfmt == "hhmmss" and h == 0:
        h = int(rng.integers(1, 24))
    if tfmt == "hhmm" and h == 0:
        h = int(rng.integers(1, 24))
    return {"kind": "packed", "fields": [y, mo, d, h, mi, s], "dfmt": dfmt, "tfmt": tfmt, "tz": tz}


def packed_exhaustive(ctx, tz):
    """every valid packed time (hhmmss >= 10000, hhmm 100..2359, hh 0..23) and every valid packed date
    (yyyymmdd 1970..2100, yymmdd 2000..2099): the packed-integer clause is enumerated completely"""
    from datetime import date
    from ocean_science_utilities.tools import time as tt
    n = 0
    bad = []
    for h in range(24):
        for mi in range(60):
            for sec in range(60):
                for tint, exp in ((h * 10000 + mi * 100 + sec, timedelta(hours=h, minutes=mi, seconds=sec)),):
                    if tint >= 10000:
                        n += 1
                        try:
                            got = tt.time_from_timeint(tint)
                        except Exception as e:
                            got = repr(e)
                        if got != exp and len(bad) < 5:
                            bad.append({"time_int": tint, "got": repr(got), "expected": repr(exp)})
            tint = h * 100 + mi
            if tint >= 100:
                n += 1
                got = tt.time_from_timeint(tint)
                if got != timedelta(hours=h, minutes=mi) and len(bad) < 5:
                    bad.append({"time_int": tint, "got": repr(got)})
        n += 1
        got = tt.time_from_timeint(h)
        if got != timedelta(hours=h) and len(bad) < 5:
            bad.append({"time_int": h, "got": repr(got)})
    d = date(1970, 1, 1)
    end = date(2100, 12, 31)
    while d <= end:
        forms = [d.year * 10000 + d.month * 100 + d.day]
        if 2000 <= d.year <= 2099:
            forms.append((d.year - 2000) * 10000 + d.month * 100 + d.day)
        for dint in forms:
            n += 1
            try:
                got = tt.date_from_dateint(dint)
                ok = (got == datetime(d.year, d.month, d.day, tzinfo=timezone.utc)) and is_utc(got)
            except Exception as e:
                got, ok = repr(e), False
            if not ok and len(bad) < 5:
                bad.append({"date_int": dint, "got": repr(got), "expected": d.isoformat()})
        d += timedelta(days=1)
    ctx.count("C17.packed_integers_enumerated", n)
    ctx.case(("packed-exhaustive", tz), nontrivial=True, sample={"packed_integers_enumerated": n})
    ctx.check("C17.packed:all-valid-integers", not bad, {"kind": "packed-exhaustive", "tz": tz}, {"first_failures": bad},
              key="C17:packed:exhaustive")
    # combined decoding on the boundaries of the three time encodings
    for dint, tint, exp in ((20221109, 100, datetime(2022, 11, 9, 1, 0, tzinfo=timezone.utc)),
                            (20221109, 10000, datetime(2022, 11, 9, 1, 0, 0, tzinfo=timezone.utc)),
                            (221109, 99, None), (20000229, 235959, datetime(2000, 2, 29, 23, 59, 59, tzinfo=timezone.utc)),
                            (101, 23, datetime(2000, 1, 1, 23, tzinfo=timezone.utc))):
        if exp is None:
            continue
        got = tt.datetime_from_time_and_date_integers(dint, tint)
        ctx.check("C17.packed", same(got, exp, 0) and is_utc(got), {"kind": "packed-boundary", "date_int": dint, "time_int": tint},
                  {"got": repr(got), "expected": exp.isoformat()}, key="C17:packed:boundary")


def judge(ctx, case):
    from ocean_science_utilities.tools import time as tt
    k = case["kind"]
    if k in ("packed-exhaustive", "packed-boundary"):
        return packed_exhaustive(ctx, case.get("tz", "UTC"))
    if k == "scalar":
        judge_scalar(ctx, case)
    elif k == "seq":
        judge_sequence(ctx, case)
    elif k == "packed":
        judge_packed(ctx, case)
    elif k == "none":
        ctx.case(("none",), nontrivial=False)
        ctx.check("C17.none", tt.to_datetime_utc(None) is None and tt.to_datetime64(None) is None
                  and tt.datetime_to_iso_time_string(None) is None, case, key="C17:none")


def run_shard(ctx, shard):
    _time.tzset()
    rng = ctx.rng()
    tz = shard["tz"]
    if shard.get("packed_exhaustive"):
        packed_exhaustive(ctx, tz)
        return
    judge(ctx, {"kind": "none"})
    for i in range(shard["n"]):
        sub = int(rng.integers(0, 2 ** 62))
        r = rng.uniform()
        if r < 0.6:
            _, us = draw_instant(rng)
            judge(ctx, {"kind": "scalar", "us": us, "rep": str(rng.choice(REPRS)), "tz": tz, "sub": sub})
        elif r < 0.8:
            container = str(rng.choice(["list", "tuple", "ndarray", "dataarray", "series", "list"]))
            n = int(rng.integers(1, 6))
            uss = [draw_instant(rng)[1] for _ in range(n)]
            if container in ("dataarray", "series"):
                # arrays keep the unit they were made with (numpy always; xarray/pandas since they support s/ms/us)
                reps = [str(rng.choice(["dt64_ns", "dt64_s", "dt64_ms", "dt64_us"]))] * n
            elif container == "ndarray":
                reps = [str(rng.choice(["dt64_ns", "dt64_s", "dt64_ms", "dt64_us", "epoch_float", "epoch_int", "aware", "iso_z", "naive"]))] * n
            else:
                reps = [str(rng.choice(REPRS)) for _ in range(n)]
            judge(ctx, {"kind": "seq", "container": container, "uss": uss, "reps": reps, "tz": tz, "sub": sub})
        else:
            judge(ctx, gen_packed(rng, tz))


def replay(ctx, case):
    _time.tzset()
    judge(ctx, case)
