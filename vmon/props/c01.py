"""C01 - spectral moments and integral parameters equal their defining integrals."""
from __future__ import annotations

import numpy as np

from ..core import guarded
from ..gens import spectra as gs
from ..monitors import spectrum as ms
from ..monitors import history as hist
from ..oracles import spectral as osp

PROPERTY = "C01"
LEVEL = "exploration"
RULE = ("seeded random spectra (1D/2D x layouts scalar/time/time_lat/flat x frequency-grid kinds "
        "uniform/log/random with and without f=0 x density kinds x NaN patterns) and bands "
        "(default, random, edges exactly on grid points, empty, single point, fmax=inf), powers 0..4; "
        "every call of frequency_moment/m0/m1/m2/hm0/tm01/tm02 is judged by a postcondition that "
        "recomputes the trapezoid from the raw arrays. distinct = descriptor (kind, layout, grid kind, "
        "density kind, NaN kind, depth kind, band kind); non-trivial = >=2 in-band points and >=1 "
        "positive finite value.")
ASSUMPTIONS = ["numpy float64 arithmetic; xarray Dataset accessors return the stored arrays",
               "for non-uniform direction grids the bin widths are taken from the object's own "
               "direction_step (judged by C02)"]
REQUIRED_MONITORS = ["C01.frequency_moment==trapz", "C01.hm0", "C01.tm01", "C01.tm02",
                     "C01.law:scale", "C01.law:additive", "C01.law:Tm02<=Tm01", "C01.law:period-range",
                     "C01.alias"]
REQUIRED_COUNTERS = {"C01.read-modify-read_sequences": 5}
REQUIRED_REACH = ["spectrum.py:WaveSpectrum.frequency_moment", "spectrum.py:WaveSpectrum._range",
                  "spectrum.py:FrequencyDirectionSpectrum.e"]
TIMEOUT = {"quick": 600, "thorough": 2400}
N = {"quick": (8, 60), "thorough": (16, 400)}  # shards, cases per shard


def plan(tier, seed):
    ns, per = N[tier]
    shards = [{"n": per} for _ in range(ns)]
    if tier == "thorough":
        shards.append({"repo_tests": True, "n": 0, "allk": False})
    return shards


def bands(rng, f):
    out = [("default", 0.0, np.inf)]
    nf = len(f)
    lo, hi = float(f[0]), float(f[-1])
    a, b = sorted(rng.uniform(lo - 0.02, hi + 0.02, 2))
    out.append(("random", float(a), float(b)))
    if nf >= 3:
        i = int(rng.integers(0, nf - 1))
        j = int(rng.integers(i + 1, nf))
        out.append(("on-grid", float(f[i]), float(f[j])))  # f[j] itself excluded: separates < from <=
        k = int(rng.integers(0, nf))
        eps = 1e-9
        out.append(("single", float(f[k]), float(f[k]) + eps))
    out.append(("empty", hi + 1.0, hi + 2.0))
    out.append(("open", float(rng.uniform(lo, hi)) if hi > lo else lo, np.inf))
    return out


def make_case(rng):
    kind = rng.choice(["1d", "2d"])
    nank = str(rng.choice(["none", "none", "single", "run", "scatter", "all_one_spectrum"]))
    if kind == "1d":
        return gs.case_1d(rng, nankind=nank)
    if nank == "run":
        nank = "row"
    return gs.case_2d(rng, nankind=nank)


def judge(ctx, c, rng):
    ms.install(ctx)
    s = gs.build(c)
    f = c["freq"]
    E = np.asarray(c["E"], dtype=float)
    fin = E[~np.isnan(E)]
    has_pos = bool(fin.size and (fin > 0).any())
    for bkind, fmin, fmax in bands(rng, f):
        inband = int(osp.band_mask(f, fmin, fmax).sum())
        ctx.case(gs.descriptor(c) + (bkind,), nontrivial=(inband >= 2 and has_pos),
                 sample={"kind": c["kind"], "layout": c["layout"], "freq": f, "band": [fmin, fmax],
                         "E_shape": list(E.shape)})
        wit = lambda: {"gen": c, "band": [fmin, fmax]}  # noqa
        for p in range(5):
            guarded(ctx, "C01.no-exception", lambda: s.frequency_moment(p, fmin, fmax), wit)
        res = {}
        for name in ("m0", "m1", "m2", "hm0", "tm01", "tm02"):
            ok, v = guarded(ctx, "C01.no-exception", lambda: getattr(s, name)(fmin, fmax), wit)
            if ok:
                res[name] = np.asarray(v.values, dtype=float)
        if len(res) < 6:
            continue
        # laws for non negative spectra
        pos = res["m0"] > 0
        if pos.any():
            t1, t2 = res["tm01"][pos], res["tm02"][pos]
            fb = f[osp.band_mask(f, fmin, fmax)]
            ctx.check("C01.law:Tm02<=Tm01", bool(np.all(t2 <= t1 * (1 + 1e-12))), wit,
                      {"tm01": t1, "tm02": t2}, key="C01:law:order")
            lo = 1.0 / fb[-1]
            hi = np.inf if fb[0] == 0 else 1.0 / fb[0]
            okr = np.all((t1 >= lo * (1 - 1e-12)) & (t1 <= hi * (1 + 1e-12)) &
                         (t2 >= lo * (1 - 1e-12)) & (t2 <= hi * (1 + 1e-12)))
            ctx.check("C01.law:period-range", bool(okr), wit, {"tm01": t1, "tm02": t2, "lo": lo, "hi": hi},
                      key="C01:law:range")
    # aliases (default band)
    for alias, meth in (("significant_waveheight", "hm0"), ("mean_period", "tm01"),
                        ("zero_crossing_period", "tm02")):
        ok, v = guarded(ctx, "C01.no-exception", lambda: getattr(s, alias), lambda: {"gen": c})
        if ok:
            ok2, w = guarded(ctx, "C01.no-exception", lambda: getattr(s, meth)(), lambda: {"gen": c})
            if ok2:
                ctx.close("C01.alias", v.values, w.values, atol=0, rtol=0,
                          case=lambda: {"gen": c, "alias": alias}, key="C01:alias")

    # linearity (metamorphic): scaling
    cfac = float(rng.uniform(0.1, 7.0))
    scaled = s.multiply(np.full(s.shape(), cfac))
    for p in (0, 1, 2, 3, 4):
        a = np.asarray(s.frequency_moment(p).values, dtype=float)
        b = np.asarray(scaled.frequency_moment(p).values, dtype=float)
        ctx.close("C01.law:scale", b, cfac * a, atol=1e-300, rtol=1e-12,
                  case=lambda: {"gen": c, "c": cfac, "power": p}, key="C01:law:scale")
    ctx.close("C01.law:scale", scaled.hm0().values, np.sqrt(cfac) * s.hm0().values, atol=1e-300, rtol=1e-12,
              case=lambda: {"gen": c, "c": cfac, "what": "hm0"}, key="C01:law:scale")
    m0 = np.asarray(s.m0().values)
    okp = m0 > 0
    ctx.close("C01.law:scale", np.asarray(scaled.tm01().values)[okp], np.asarray(s.tm01().values)[okp],
              atol=0, rtol=1e-12, case=lambda: {"gen": c, "c": cfac, "what": "tm01"}, key="C01:law:scale")
    ctx.close("C01.law:scale", np.asarray(scaled.tm02().values)[okp], np.asarray(s.tm02().values)[okp],
              atol=0, rtol=1e-12, case=lambda: {"gen": c, "c": cfac, "what": "tm02"}, key="C01:law:scale")
    # additivity with a second spectrum with identical NaN mask (negative values allowed)
    c2 = dict(c)
    E2 = rng.normal(0, 1, E.shape) * np.nanmax(np.abs(E), initial=1.0)
    E2[np.isnan(E)] = np.nan
    c2["E"] = E2
    s2 = gs.build(c2)
    tot = s + s2
    dif = s - s2
    neg = -s
    for p in (0, 1, 2):
        a = np.asarray(s.frequency_moment(p).values, dtype=float)
        b = np.asarray(s2.frequency_moment(p).values, dtype=float)
        t = np.asarray(tot.frequency_moment(p).values, dtype=float)
        d = np.asarray(dif.frequency_moment(p).values, dtype=float)
        n = np.asarray(neg.frequency_moment(p).values, dtype=float)
        scale = float(np.max(np.abs(a), initial=0) + np.max(np.abs(b), initial=0))
        ctx.close("C01.law:additive", t, a + b, atol=1e-11 * scale + 1e-300, rtol=0,
                  case=lambda: {"gen": c, "E2": E2, "power": p}, key="C01:law:additive")
        ctx.close("C01.law:additive", d, a - b, atol=1e-11 * scale + 1e-300, rtol=0,
                  case=lambda: {"gen": c, "E2": E2, "power": p, "op": "sub"}, key="C01:law:additive")
        ctx.close("C01.law:additive", n, -a, atol=0, rtol=1e-14,
                  case=lambda: {"gen": c, "power": p, "op": "neg"}, key="C01:law:additive")


def judge_sequence(ctx, c, rng):
    """read - modify the same object in place - read again: results must follow the object's current content
    (the class-level postconditions recompute every result from the raw arrays at the time of the call)"""
    s = gs.build(c)
    f = c["freq"]
    ctx.case(gs.descriptor(c) + ("read-modify-read",), nontrivial=len(f) >= 2,
             sample={"kind": c["kind"], "layout": c["layout"], "sequence": "read, multiply(inplace=True), read, fillna, read"})
    wit = lambda: {"gen": c, "sequence": True}  # noqa
    lo, hi = float(f[0]), float(f[-1])
    band = (0.0, np.inf) if rng.uniform() < 0.5 else tuple(sorted(rng.uniform(lo, hi, 2)))

    def read():
        for name in ("m0", "m1", "m2", "hm0", "tm01", "tm02"):
            guarded(ctx, "C01.no-exception", lambda: getattr(s, name)(*band), wit)
        guarded(ctx, "C01.no-exception", lambda: s.frequency_moment(3, *band), wit)
    read()
    ramp = rng.uniform(0.1, 3.0, len(f)) * np.linspace(0.2, 3.0, len(f)) ** float(rng.choice([-2, 2]))
    guarded(ctx, "C01.no-exception", lambda: s.multiply(ramp, ["frequency"], inplace=True), wit)
    ctx.count("C01.read-modify-read_sequences")
    read()
    guarded(ctx, "C01.no-exception", lambda: s.fillna(0.0), wit)
    read()
    E2 = np.asarray(s.variance_density.values) * 0.5
    guarded(ctx, "C01.no-exception", lambda: s.__setitem__("variance_density", s.dataset["variance_density"] * 0.5), wit)
    read()


def history_io(c):
    reads = hist.reads_from(c, banded=("m0", "m1", "m2", "hm0", "tm01", "tm02", "mean_squared_slope"),
                            plain=("significant_waveheight", "mean_period", "zero_crossing_period"),
                            calls=(("frequency_moment(3)", lambda s: s.frequency_moment(3)),
                                   ("frequency_moment(-1)", lambda s: s.frequency_moment(-1))))
    return reads, hist.spectrum_mods(c, with_depth=True)


def run_shard(ctx, shard):
    if shard.get("repo_tests"):
        from ..core import run_repo_tests_under_contracts
        ms.install(ctx)
        run_repo_tests_under_contracts(ctx)
        return
    rng = ctx.rng()
    for i in range(shard["n"]):
        c = make_case(rng)
        sub = np.random.default_rng(int(rng.integers(0, 2 ** 62)))
        c["_sub"] = int(sub.integers(0, 2 ** 62))
        judge(ctx, c, np.random.default_rng(c["_sub"]))
        if i % 3 == 0:
            judge_sequence(ctx, c, np.random.default_rng(c["_sub"] + 1))
        if i % 3 == 1:
            hist.judge_history(ctx, "C01", c, np.random.default_rng(c["_sub"] + 2), *history_io(c))


def replay(ctx, case):
    ms.install(ctx)
    if "method" in case:
        ms.call_case(case)
    else:
        g = case["gen"]
        if "history" in case:
            hist.run_history(ctx, "C01", g, case["history"], *history_io(g))
        elif case.get("sequence"):
            judge_sequence(ctx, g, np.random.default_rng(int(g["_sub"]) + 1))
        else:
            judge(ctx, g, np.random.default_rng(int(g["_sub"])))
