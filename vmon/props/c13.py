"""C13 - linear interpolation: exact at nodes, bounded, no extrapolation, NaN-aware."""
from __future__ import annotations

from datetime import datetime, timezone

import numpy as np

from ..core import guarded
from ..gens import spectra as gs
from ..oracles.interp import ref_interp_axis0

PROPERTY = "C13"
LEVEL = "exploration"
RULE = ("(A) datasets with one interpolated coordinate (numeric 'x'/'frequency' or datetime 'time'), random "
        "non-uniform grids of 2..40 nodes, ascending/descending, variables of rank 1..4 with the axis in any "
        "position plus a variable without the coordinate, NaN patterns (element-wise for rank 1, whole nodes for "
        "rank>1), targets inside/outside/exactly on nodes and end points/mid points, scalar and array, "
        "datetime64/datetime/ISO-string targets, linear and nearest; (B) 2-3 coordinate grid interpolation of "
        "NaN-free data vs scipy RegularGridInterpolator; (C) 1D/2D spectra interpolated in time and frequency "
        "(energy-weighted moments, extrapolation value). distinct = (part, coordinate kind, direction, rank, axis "
        "position, NaN kind, mode, target form); non-trivial = at least one target strictly inside the grid.")
ASSUMPTIONS = ["for rank>1 a neighbouring node counts as missing when any element of its slab is NaN "
               "(the statement does not fix element vs node; generated NaN patterns are whole nodes)",
               "nearest mode: exact ties may return either neighbour"]
REQUIRED_MONITORS = ["C13.axis==reference", "C13.axis:nodes-bitwise", "C13.axis:outside-NaN", "C13.axis:between-neighbours",
                     "C13.axis:linear-data-exact", "C13.axis:passthrough-identical", "C13.axis:coords",
                     "C13.nearest==a-neighbour", "C13.grid==RegularGridInterpolator",
                     "C13.spectrum2d:time", "C13.spectrum1d:time", "C13.spectrum1d:frequency",
                     "C13.spectrum2d:frequency", "C13.spectrum:extrapolation_value", "C13.spectrum1d:nearest"]
REQUIRED_REACH = ["grid.py:enclosing_points_1d", "general.py:interpolation_weights_1d",
                  "nd_interp.py:NdInterpolator._data_interpolator", "dataset.py:interpolate_dataset_along_axis",
                  "dataset.py:interpolate_dataset_grid", "spectrum.py:WaveSpectrum.interpolate",
                  "spectrum.py:FrequencySpectrum.interpolate", "spectrum.py:WaveSpectrum.interpolate_frequency"]
REQUIRED_COUNTERS = {"C13.exact_half_weight_targets": 2, "C13.grid_cases_all_targets_inside": 3, "C13.descending_grids": 3, "C13.datetime_axes": 3, "C13.nan_neighbour_dropped": 3,
                     "C13.nan_result_by_half_rule": 1}
TIMEOUT = {"quick": 600, "thorough": 3000}
N = {"quick": (8, 300), "thorough": (16, 6000)}


def plan(tier, seed):
    ns, per = N[tier]
    return [{"n": per} for _ in range(ns)]


# ------------------------------------------------------------------ part A
def make_grid(rng, n, kind):
    if kind == "time":
        xp = np.cumsum(rng.integers(60, 7200, n)).astype("int64") + int(rng.integers(0, 10 ** 9))
    else:
        xp = np.cumsum(rng.uniform(0.01, 1.0, n)) + rng.uniform(-5, 5)
        if rng.uniform() < 0.3:
            xp = np.linspace(xp[0], xp[-1], n)
    return xp


def make_targets(rng, xp, kind):
    lo, hi = xp.min(), xp.max()
    span = hi - lo
    m = int(rng.integers(1, 12))
    t = []
    for _ in range(m):
        r = rng.uniform()
        if r < 0.45:
            v = rng.uniform(lo, hi)
        elif r < 0.6:
            v = xp[int(rng.integers(0, len(xp)))]
        elif r < 0.7:
            v = lo if rng.uniform() < 0.5 else hi
        elif r < 0.8:
            i = int(rng.integers(0, len(xp) - 1))
            v = 0.5 * (np.sort(xp)[i] + np.sort(xp)[i + 1])
        elif r < 0.9:
            v = lo - rng.uniform(0.001, 1) * span - (1 if kind == "time" else 0)
        else:
            v = hi + rng.uniform(0.001, 1) * span + (1 if kind == "time" else 0)
        t.append(v)
    t = np.array(t)
    if kind == "time":
        t = np.round(t).astype("int64")
    return t


def case_axis(rng):
    kind = str(rng.choice(["x", "frequency", "time"]))
    n = int(rng.choice([2, 2, 3, 5, 9, 20, 40]))
    xp = make_grid(rng, n, kind)
    dyadic = bool(kind != "time" and rng.uniform() < 0.3)
    if dyadic:
        # multiples of 1/4 (ascending only): every difference and quotient below is exact in binary floating point,
        # so exact mid points (weight exactly 1/2) and exact nodes are decidable without tolerance
        xp = np.cumsum(rng.integers(1, 9, n)).astype(float) / 4.0 + float(rng.integers(-8, 8))
    desc = bool(rng.uniform() < 0.35) and not dyadic
    if desc:
        xp = xp[::-1].copy()
    rank = int(rng.integers(1, 5))
    axis = int(rng.integers(0, rank))
    other = ["p", "q", "r"][: rank - 1]
    dims = other[:axis] + [kind] + other[axis:]
    shape = [int(rng.integers(1, 4)) for _ in dims]
    shape[axis] = n
    data_kind = str(rng.choice(["random", "random", "linear"]))
    xf = xp.astype(float)
    if data_kind == "linear":
        sl = rng.uniform(-2, 2, [s if i != axis else 1 for i, s in enumerate(shape)])
        ic = rng.uniform(-2, 2, [s if i != axis else 1 for i, s in enumerate(shape)])
        xs = ((xf - xf.min()) / max(np.ptp(xf), 1e-12)).reshape([-1 if i == axis else 1 for i in range(rank)])
        vals = ic + sl * xs
    else:
        vals = rng.normal(0, 3, shape)
    nank = str(rng.choice(["none", "none", "nodes", "nodes-many"])) if data_kind != "linear" else "none"
    if nank != "none":
        k = 1 if nank == "nodes" else max(1, n // 3)
        for i in rng.choice(n, size=min(k, n), replace=False):
            sl = [slice(None)] * rank
            sl[axis] = int(i)
            if rank == 1 or rng.uniform() < 0.6:
                vals[tuple(sl)] = np.nan
            else:
                # only part of the node's slab is missing: the node counts as missing as a whole (the node-level
                # rule of nd_interp), so the valid neighbour's value is returned when it carries more than half
                slab = vals[tuple(sl)]
                mask = rng.uniform(0, 1, slab.shape) < 0.4
                if not mask.any():
                    mask.flat[int(rng.integers(0, mask.size))] = True
                slab[mask] = np.nan
                vals[tuple(sl)] = slab
    targets = make_targets(rng, xp, kind)
    if dyadic:
        # targets on the 1/8 lattice, mid points of power-of-two-wide bins included
        targets = np.round(targets * 8.0) / 8.0
        xs_ = np.sort(xp)
        i = int(rng.integers(0, n - 1))
        targets = np.concatenate([targets, [0.5 * (xs_[i] + xs_[i + 1])]])
    form = "array"
    if kind == "time":
        form = str(rng.choice(["datetime64", "datetime", "iso"]))
    elif len(targets) == 1 and rng.uniform() < 0.5:
        form = "scalar"
    return {"part": "axis", "coord": kind, "xp": xp, "desc": desc, "dims": dims, "values": vals, "axis": axis,
            "targets": targets, "form": form, "nearest": bool(rng.uniform() < 0.3), "data_kind": data_kind,
            "nankind": nank, "extra": rng.normal(0, 1, 3), "dyadic": dyadic}


def build_axis_ds(c):
    import xarray
    kind = c["coord"]
    xp = np.asarray(c["xp"])
    coordv = xp.astype("int64").astype("datetime64[s]").astype("datetime64[ns]") if kind == "time" else xp.astype(float)
    coords = {kind: coordv}
    vals = np.asarray(c["values"], float)
    for d, s in zip(c["dims"], vals.shape):
        if d != kind:
            coords[d] = np.arange(s, dtype=float)
    ds = xarray.Dataset({"v": (c["dims"], vals), "w": (("p2",), np.asarray(c["extra"], float))}, coords=coords)
    return ds


def render_targets(c):
    t = np.asarray(c["targets"])
    if c["coord"] != "time":
        t = t.astype(float)
        return float(t[0]) if c["form"] == "scalar" else t
    t64 = t.astype("int64").astype("datetime64[s]")
    if c["form"] == "datetime64":
        return t64.astype("datetime64[ns]")
    dts = [datetime.fromtimestamp(int(v), tz=timezone.utc) for v in t.astype("int64")]
    if c["form"] == "datetime":
        return dts
    return [d.strftime("%Y-%m-%dT%H:%M:%SZ") for d in dts]


def judge_axis(ctx, c):
    from ocean_science_utilities.interpolate.dataset import interpolate_dataset_along_axis
    ds = build_axis_ds(c)
    kind = c["coord"]
    xp = np.asarray(c["xp"]).astype(float)
    tg = np.asarray(c["targets"]).astype(float)
    vals = np.asarray(c["values"], float)
    axis = int(c["axis"])
    inside = (tg > xp.min()) & (tg < xp.max())
    if c["desc"]:
        ctx.count("C13.descending_grids")
    if kind == "time":
        ctx.count("C13.datetime_axes")
    ctx.case(("axis", kind, "desc" if c["desc"] else "asc", vals.ndim, axis, c["nankind"],
              "nearest" if c["nearest"] else "linear", c["form"], c["data_kind"]), nontrivial=bool(inside.any()),
             sample={"coord": kind, "xp": c["xp"][:6], "targets": c["targets"][:6], "dims": c["dims"],
                     "nearest": c["nearest"], "form": c["form"]})
    ok, out = guarded(ctx, "C13.no-exception",
                      lambda: interpolate_dataset_along_axis(render_targets(c), ds, coordinate_name=kind,
                                                             nearest_neighbour=c["nearest"]), c, key="C13:exception:axis")
    if not ok:
        return
    # pass-through variable
    same = "w" in out and out["w"].dims == ds["w"].dims and np.array_equal(out["w"].values, ds["w"].values)
    ctx.check("C13.axis:passthrough-identical", bool(same), c, key="C13:passthrough")
    if "v" not in out:
        ctx.check("C13.axis==reference", False, c, {"missing": "v"}, key="C13:axis")
        return
    got = out["v"]
    want_dims = tuple(c["dims"])
    okd = tuple(got.dims) == want_dims
    ctx.check("C13.axis:coords", okd, c, {"dims": got.dims}, key="C13:coords")
    if not okd:
        return
    gc = got.coords[kind].values
    if kind == "time":
        wc = np.asarray(c["targets"]).astype("int64").astype("datetime64[s]").astype("datetime64[ns]")
        ctx.check("C13.axis:coords", bool(np.array_equal(gc.astype("datetime64[ns]"), wc)), c, {"coord": str(gc)[:200]},
                  key="C13:coords")
    else:
        ctx.check("C13.axis:coords", bool(np.array_equal(np.asarray(gc, float), tg)), c, {"coord": gc}, key="C13:coords")
    g = np.moveaxis(np.asarray(got.values, float), axis, 0)
    v0 = np.moveaxis(vals, axis, 0)
    ref, tie, alt = ref_interp_axis0(xp, v0, tg, nearest=c["nearest"], exact=bool(c.get("dyadic")))
    if c.get("dyadic"):
        ctx.count("C13.dyadic_grid_cases")
    if g.shape != ref.shape:
        ctx.check("C13.axis==reference", False, c, {"shape": g.shape, "want": ref.shape}, key="C13:axis")
        return
    scale = float(np.nanmax(np.abs(vals), initial=1.0))
    for j in range(len(tg)):
        gj, rj = g[j], ref[j]
        okj = np.allclose(gj, rj, rtol=1e-12, atol=1e-12 * scale, equal_nan=True)
        if not okj and tie[j]:
            okj = np.allclose(gj, alt[j], rtol=1e-12, atol=1e-12 * scale, equal_nan=True)
        if not ctx.check("C13.axis==reference", bool(okj), c, {"target": tg[j], "got": gj, "want": rj},
                         key="C13:axis:nearest" if c["nearest"] else "C13:axis:linear"):
            break
    # derived monitors
    xs = np.sort(xp)
    order = np.argsort(xp)
    vs = v0[order]
    node_ok = ~np.isnan(vs.reshape(len(xs), -1)).any(axis=1)
    for j in range(len(tg)):
        x = tg[j]
        if x < xs[0] or x > xs[-1]:
            ctx.check("C13.axis:outside-NaN", bool(np.all(np.isnan(g[j]))), c, {"target": x, "got": g[j]},
                      key="C13:outside")
            continue
        hit = np.where(xs == x)[0]
        if hit.size:
            i = int(hit[0])
            if node_ok[i]:
                ctx.check("C13.axis:nodes-bitwise", bool(np.array_equal(g[j], vs[i])), c,
                          {"target": x, "got": g[j], "want": vs[i]}, key="C13:nodes")
            continue
        i0 = int(np.searchsorted(xs, x) - 1)
        a, b = vs[i0], vs[i0 + 1]
        if node_ok[i0] and node_ok[i0 + 1]:
            lo, hi = np.minimum(a, b), np.maximum(a, b)
            tol = 1e-12 * scale
            ctx.check("C13.axis:between-neighbours", bool(np.all((g[j] >= lo - tol) & (g[j] <= hi + tol))), c,
                      {"target": x, "got": g[j], "lo": lo, "hi": hi}, key="C13:between")
            if c["nearest"]:
                ctx.check("C13.nearest==a-neighbour", bool(np.array_equal(g[j], a) or np.array_equal(g[j], b)), c,
                          {"target": x, "got": g[j]}, key="C13:nearest")
                t = (x - xs[i0]) / (xs[i0 + 1] - xs[i0])
                if abs(t - 0.5) > 1e-9:
                    want = a if t < 0.5 else b
                    ctx.check("C13.nearest==a-neighbour", bool(np.array_equal(g[j], want)), c,
                              {"target": x, "got": g[j], "want": want}, key="C13:nearest:nearer")
        elif node_ok[i0] != node_ok[i0 + 1] and not c["nearest"]:
            t = (x - xs[i0]) / (xs[i0 + 1] - xs[i0])
            wvalid = (1 - t) if node_ok[i0] else t
            if wvalid > 0.5 + 1e-9:
                ctx.count("C13.nan_neighbour_dropped")
            elif wvalid < 0.5 - 1e-9:
                ctx.count("C13.nan_result_by_half_rule")
            elif c.get("dyadic") and wvalid == 0.5:
                ctx.count("C13.exact_half_weight_targets")
    if c["data_kind"] == "linear" and not c["nearest"]:
        # exact for linearly varying data
        ins = (tg >= xs[0]) & (tg <= xs[-1])
        xsn = (tg - xp.min()) / max(np.ptp(xp), 1e-12)
        # reconstruct line from the two end nodes of the data
        v_lo, v_hi = vs[0], vs[-1]
        want = v_lo[None, ...] + (v_hi - v_lo)[None, ...] * xsn.reshape((-1,) + (1,) * (vs.ndim - 1))
        ctx.close("C13.axis:linear-data-exact", g[ins], want[ins], atol=1e-11 * scale, rtol=1e-11, case=c,
                  key="C13:linear-exact")


# ------------------------------------------------------------------ part B
def case_grid(rng):
    nc = int(rng.choice([2, 2, 3]))
    names = ["x", "y", "z"][:nc]
    grids, desc = [], []
    for _ in range(nc):
        n = int(rng.integers(2, 9))
        g = make_grid(rng, n, "x")
        d = bool(rng.uniform() < 0.3)
        grids.append(g[::-1].copy() if d else g)
        desc.append(d)
    extra = bool(rng.uniform() < 0.5)
    dims = list(names)
    shape = [len(g) for g in grids]
    if extra:
        pos = int(rng.integers(0, nc + 1))
        dims.insert(pos, "p")
        shape.insert(pos, int(rng.integers(1, 4)))
    order = list(rng.permutation(len(dims)))
    dims = [dims[i] for i in order]
    shape = [shape[i] for i in order]
    vals = rng.normal(0, 2, shape)
    targets = [make_targets(rng, g, "x") for g in grids]
    if rng.uniform() < 0.6:
        targets = [np.clip(t, g.min(), g.max()) for t, g in zip(targets, grids)]
    nearest = bool(rng.uniform() < 0.3)
    if nearest:
        targets = [np.clip(t, g.min(), g.max()) for t, g in zip(targets, grids)]
    return {"part": "grid", "names": names, "grids": grids, "dims": dims, "values": vals, "targets": targets, "nearest": nearest}


def judge_grid(ctx, c):
    import xarray
    from scipy.interpolate import RegularGridInterpolator
    from ocean_science_utilities.interpolate.dataset import interpolate_dataset_grid
    names = c["names"]
    coords = {n: np.asarray(g, float) for n, g in zip(names, c["grids"])}
    vals = np.asarray(c["values"], float)
    for d, s in zip(c["dims"], vals.shape):
        if d == "p":
            coords["p"] = np.arange(s, dtype=float)
    ds = xarray.Dataset({"v": (c["dims"], vals)}, coords=coords)
    tg = {n: np.asarray(t, float) for n, t in zip(names, c["targets"])}
    ctx.case(("grid", len(names), "p" in c["dims"], tuple(c["dims"])), nontrivial=True,
             sample={"dims": c["dims"], "grids": [g[:4] for g in c["grids"]], "targets": [t[:4] for t in c["targets"]]})
    if c.get("nearest"):
        return judge_grid_nearest(ctx, c, ds, tg, coords)
    ok, out = guarded(ctx, "C13.no-exception", lambda: interpolate_dataset_grid(dict(tg), ds), c, key="C13:exception:grid")
    if not ok:
        return
    got = out["v"].transpose(*( [d for d in c["dims"] if d == "p"] + names)).values
    # reference: multilinear on the ascending tensor grid
    v = ds["v"].transpose(*([d for d in c["dims"] if d == "p"] + names)).values
    if "p" not in c["dims"]:
        v = v[None, ...]
        got = got[None, ...]
    asc, vv = [], v
    for i, n in enumerate(names):
        g = coords[n]
        if g[-1] < g[0]:
            g = g[::-1]
            vv = np.flip(vv, axis=i + 1)
        asc.append(g)
    mesh = np.meshgrid(*[tg[n] for n in names], indexing="ij")
    pts = np.stack([m.ravel() for m in mesh], axis=-1)
    want = np.empty(got.shape)
    for ip in range(vv.shape[0]):
        rgi = RegularGridInterpolator(tuple(asc), vv[ip], bounds_error=False, fill_value=np.nan)
        want[ip] = rgi(pts).reshape(mesh[0].shape)
    scale = float(np.max(np.abs(vals)))
    any_outside = any(bool(np.any((tg[n] < coords[n].min()) | (tg[n] > coords[n].max()))) for n in names)
    key = "C13:grid"
    if any_outside and got.shape == want.shape:
        # mechanism classifier: the only disagreement is "NaN where the reference is finite" while some target of
        # some coordinate lies outside its grid (successive 1-D passes drop whole nodes that contain a NaN)
        gn, wn = np.isnan(got), np.isnan(want)
        both = ~gn & ~wn
        if (not np.any(~gn & wn) and np.allclose(got[both], want[both], rtol=1e-11, atol=1e-11 * scale)
                and np.any(gn & ~wn)):
            key = "C13:grid:outside-target-poisons-inside-targets"
    ctx.count("C13.grid_cases_all_targets_inside" if not any_outside else "C13.grid_cases_with_outside_targets")
    ctx.close("C13.grid==RegularGridInterpolator", got, want, atol=1e-11 * scale, rtol=1e-11, case=c, key=key)


def judge_grid_nearest(ctx, c, ds, tg, coords):
    """nearest-neighbour mode over several coordinates: every returned value is the grid value at the nearest node of
    EVERY coordinate (targets within 1e-9 of a mid point between two nodes may take either and are not compared)"""
    from ocean_science_utilities.interpolate.dataset import interpolate_dataset_grid
    names = c["names"]
    ok, out = guarded(ctx, "C13.no-exception", lambda: interpolate_dataset_grid(dict(tg), ds, nearest_neighbour=True), c,
                      key="C13:exception:grid")
    if not ok:
        return
    lead = [d for d in c["dims"] if d == "p"]
    got = out["v"].transpose(*(lead + names)).values
    v = ds["v"].transpose(*(lead + names)).values
    idxs, amb = [], []
    for n in names:
        g, t = coords[n], tg[n]
        dist = np.abs(t[:, None] - g[None, :])
        order = np.sort(dist, axis=1)
        idxs.append(np.argmin(dist, axis=1))
        amb.append((order[:, 1] - order[:, 0]) < 1e-9 if len(g) > 1 else np.zeros(len(t), bool))
    want = v[(slice(None),) * len(lead) + np.ix_(*idxs)]
    ambm = np.zeros(want.shape[len(lead):], bool)
    for i, a in enumerate(amb):
        shp = [1] * len(names)
        shp[i] = len(a)
        ambm = ambm | a.reshape(shp)
    sel = np.broadcast_to(~ambm, want.shape)
    ctx.count("C13.grid_cases_nearest")
    ctx.check("C13.grid:nearest==value-at-nearest-node", got.shape == want.shape and bool(np.array_equal(got[sel], want[sel])), c,
              {"got": got, "want": want}, key="C13:grid:nearest")


# ------------------------------------------------------------------ part C
def case_spectrum(rng):
    kind = str(rng.choice(["1d", "2d"]))
    along = str(rng.choice(["time", "frequency"]))
    if kind == "1d":
        c = gs.case_1d(rng, layout="time", nf=int(rng.integers(3, 14)), fkind=str(rng.choice(["uniform", "random"])),
                       depth_kind="finite", allow_zero=False)
    else:
        c = gs.case_2d(rng, layout="time", nf=int(rng.integers(3, 10)), nd=int(rng.choice([8, 12])),
                       fkind=str(rng.choice(["uniform", "random"])), dkind="uniform0", ekind=str(rng.choice(["unimodal", "zeros"])),
                       depth_kind="finite", allow_zero=False)
    nt = int(rng.integers(2, 6))
    # rebuild with nt times (layout time)
    E = np.asarray(c["E"])
    if E.shape[0] != nt:
        reps = int(np.ceil(nt / E.shape[0]))
        E = np.concatenate([E * rng.uniform(0.5, 1.5) for _ in range(reps)], axis=0)[:nt]
        c["E"] = E
        for k in ("a1", "b1", "a2", "b2"):
            if k in c:
                a, b, a2_, b2_ = gs.moments_in_disc(rng, E.shape)
                c[k] = {"a1": a, "b1": b, "a2": a2_, "b2": b2_}[k]
        c["time"] = (np.cumsum(rng.integers(600, 7200, nt)) + int(rng.integers(0, 10 ** 9))).astype("int64")
        c["lat"] = rng.uniform(-80, 80, nt)
        c["lon"] = rng.uniform(-170, 170, nt)
        c["depth"] = 10 ** rng.uniform(0, 3, nt)
    if along == "frequency" and rng.uniform() < 0.5:
        # unknown position / depth at some times: variables without the frequency coordinate pass through unchanged
        for k in ("depth", "lat", "lon"):
            a = np.array(c[k], dtype=float)
            a[rng.uniform(0, 1, a.shape) < 0.4] = np.nan
            c[k] = a
        c["depth_kind"] = "finite+unknown"
    grid = np.asarray(c["time"] if along == "time" else c["freq"])
    targets = make_targets(rng, grid, "time" if along == "time" else "x")
    return {"part": "spectrum", "gen": c, "along": along, "targets": targets,
            "extrapolation_value": float(rng.choice([0.0, 0.0, -1.0, 7.5])),
            "method": str(rng.choice(["linear", "linear", "nearest"])) if kind == "1d" and along == "frequency" else "linear"}


def judge_spectrum(ctx, c):
    g = c["gen"]
    s = gs.build(g)
    along = c["along"]
    ev = float(c["extrapolation_value"])
    tg = np.asarray(c["targets"])
    kind = g["kind"]
    ctx.case(("spectrum", kind, along, c["method"], ev != 0.0), nontrivial=True,
             sample={"kind": kind, "along": along, "targets": tg[:5], "extrapolation_value": ev, "method": c["method"]})
    if along == "time":
        t64 = tg.astype("int64").astype("datetime64[s]").astype("datetime64[ns]")
        ok, out = guarded(ctx, "C13.no-exception", lambda: s.interpolate({"time": t64}, extrapolation_value=ev), c,
                          key="C13:exception:spectrum.interpolate")
        xp = np.asarray(g["time"]).astype(float)
        axis = 0
    else:
        if kind == "1d":
            ok, out = guarded(ctx, "C13.no-exception",
                              lambda: s.interpolate_frequency(tg.astype(float), extrapolation_value=ev, method=c["method"]),
                              c, key="C13:exception:interpolate_frequency")
        else:
            ok, out = guarded(ctx, "C13.no-exception",
                              lambda: s.interpolate_frequency(tg.astype(float), extrapolation_value=ev), c,
                              key="C13:exception:interpolate_frequency")
        xp = np.asarray(g["freq"]).astype(float)
        axis = 1
    if not ok:
        return
    # the same call once more on the same object: the first call must not have left anything behind
    if along == "time":
        ok2, out2 = guarded(ctx, "C13.no-exception", lambda: s.interpolate({"time": t64}, extrapolation_value=ev), c,
                            key="C13:exception:spectrum.interpolate")
    elif kind == "1d":
        ok2, out2 = guarded(ctx, "C13.no-exception",
                            lambda: s.interpolate_frequency(tg.astype(float), extrapolation_value=ev, method=c["method"]), c,
                            key="C13:exception:interpolate_frequency")
    else:
        ok2, out2 = guarded(ctx, "C13.no-exception", lambda: s.interpolate_frequency(tg.astype(float), extrapolation_value=ev), c,
                            key="C13:exception:interpolate_frequency")
    if ok2:
        same = all(np.array_equal(np.asarray(out.dataset[v_].values), np.asarray(out2.dataset[v_].values), equal_nan=True)
                   if np.asarray(out.dataset[v_].values).dtype.kind == "f" else
                   np.array_equal(np.asarray(out.dataset[v_].values), np.asarray(out2.dataset[v_].values))
                   for v_ in out.dataset.variables)
        ctx.check("C13.spectrum:second-use==first-use", bool(same), c, None, key="C13:spectrum:second-use")
    ctx.check("C13.spectrum:class", type(out) is type(s), c, {"type": type(out).__name__}, key="C13:spectrum:class")
    if along == "frequency":
        bad = [v_ for v_ in ("latitude", "longitude", "depth", "time")
               if v_ not in out.dataset or not (np.array_equal(np.asarray(s.dataset[v_].values), np.asarray(out.dataset[v_].values), equal_nan=True)
                                                 if np.asarray(s.dataset[v_].values).dtype.kind == "f"
                                                 else np.array_equal(np.asarray(s.dataset[v_].values), np.asarray(out.dataset[v_].values)))]
        ctx.check("C13.spectrum:variables-without-the-coordinate-pass-through", not bad, c, {"changed": bad},
                  key="C13:spectrum:passthrough")
    tgf = tg.astype(float)
    outside = (tgf < xp.min()) | (tgf > xp.max())
    nearest = c["method"] == "nearest"
    E = np.asarray(g["E"], float)
    refE, tieE, altE = ref_interp_axis0(xp, np.moveaxis(E, axis, 0), tgf, nearest=nearest)
    gotE = np.moveaxis(np.asarray(out.variance_density.values, float), axis, 0)
    name = f"C13.spectrum{kind}:{along}" if not nearest else "C13.spectrum1d:nearest"
    if gotE.shape != refE.shape:
        ctx.check(name, False, c, {"shape": gotE.shape, "want": refE.shape}, key="C13:spectrum:shape")
        return
    wantE = np.where(np.isnan(refE), ev, refE)
    scale = float(np.nanmax(np.abs(E), initial=1.0))
    okel = np.isclose(gotE, wantE, rtol=1e-11, atol=1e-12 * scale, equal_nan=True)
    if tieE.any():
        altw = np.where(np.isnan(altE), ev, altE)
        okel = okel | (tieE.reshape((-1,) + (1,) * (gotE.ndim - 1)) &
                       np.isclose(gotE, altw, rtol=1e-11, atol=1e-12 * scale, equal_nan=True))
    okE = bool(np.all(okel))
    ctx.check(name, bool(okE), c, {"got": gotE, "want": wantE}, key=f"C13:spectrum:{kind}:{along}:E")
    if outside.any():
        okx = bool(np.all(gotE[outside] == ev))
        if kind == "1d":
            for m in ("a1", "b1", "a2", "b2"):
                gm = np.moveaxis(np.asarray(out.dataset[m].values, float), axis, 0)
                okx = okx and bool(np.all(gm[outside] == ev))
        ctx.check("C13.spectrum:extrapolation_value", okx, c, {"ev": ev}, key="C13:spectrum:extrapolation")
    if kind == "1d" and not nearest:
        for m in ("a1", "b1", "a2", "b2"):
            M = np.asarray(g[m], float) * E
            refM, _, _ = ref_interp_axis0(xp, np.moveaxis(M, axis, 0), tgf, nearest=False)
            with np.errstate(divide="ignore", invalid="ignore"):
                want = refM / refE
            want = np.where(np.isnan(want), ev, want)
            gm = np.moveaxis(np.asarray(out.dataset[m].values, float), axis, 0)
            ctx.close(name, gm, want, atol=1e-9, rtol=1e-9, case=c, key=f"C13:spectrum:1d:{along}:moments")
    if kind == "1d" and nearest:
        # energy-weighted also in nearest mode: nearest(a1*E)/nearest(E) (0/0 -> extrapolation value)
        for m in ("a1", "b1"):
            M = np.asarray(g[m], float) * E
            refM, tie, alt = ref_interp_axis0(xp, np.moveaxis(M, axis, 0), tgf, nearest=True)
            gm = np.moveaxis(np.asarray(out.dataset[m].values, float), axis, 0)
            with np.errstate(divide="ignore", invalid="ignore"):
                want = refM / refE
                altw = alt / altE
            want = np.where(np.isnan(want), ev, want)
            altw = np.where(np.isnan(altw), ev, altw)
            okm = np.isclose(gm, want, rtol=1e-9, atol=1e-9) | (tie.reshape((-1,) + (1,) * (gm.ndim - 1)) &
                                                               np.isclose(gm, altw, rtol=1e-9, atol=1e-9))
            ctx.check("C13.spectrum1d:nearest", bool(np.all(okm)), c, {"moment": m, "got": gm, "want": want},
                      key="C13:spectrum:1d:nearest:moments")


def judge(ctx, c):
    {"axis": judge_axis, "grid": judge_grid, "spectrum": judge_spectrum}[c["part"]](ctx, c)


def run_shard(ctx, shard):
    rng = ctx.rng()
    for i in range(shard["n"]):
        r = i % 4
        if r in (0, 1):
            judge(ctx, case_axis(rng))
        elif r == 2:
            judge(ctx, case_grid(rng))
        else:
            judge(ctx, case_spectrum(rng))


def replay(ctx, case):
    judge(ctx, case)
