"""C03 - mean/peak direction and spread follow their definitions; rotation and mirror."""
from __future__ import annotations

import numpy as np

from ..core import guarded
from ..gens import spectra as gs
from ..monitors import spectrum as ms
from ..monitors import history as hist
from ..oracles import spectral as osp
from .c01 import bands

PROPERTY = "C03"
LEVEL = "exploration"
RULE = ("1D spectra with random moments inside the unit disc and non-negative 2D spectra (all quadrants, "
        "means within 1 degree of +-180), every band kind of C01; definitions judged by postconditions on "
        "mean_direction/mean_directional_spread/mean_a1..b2/peak_direction/peak_directional_spread/"
        "per-frequency variants; metamorphic: roll by k bins on uniform grids of 8..144 bins "
        "(quick: 4 random k; thorough: all k) and the mirror image on grids closed under negation. "
        "distinct = descriptor + band kind / rotation class; non-trivial = m0>0 in band and |(A,B)|>1e-6.")
ASSUMPTIONS = ["energy without NaN (NaN energy is outside C03's quantifier); moments NaN counted as 0"]
REQUIRED_MONITORS = ["C03.mean_a1", "C03.mean_b2", "C03.mean_direction==atan2(B,A)",
                     "C03.mean_spread==sqrt(2(1-R))", "C03.mean_spread in [0,81.03]",
                     "C03.peak_direction==atan2(b1,a1)[peak]", "C03.peak_spread==spread(a1,b1)[peak]",
                     "C03.direction_per_frequency", "C03.spread_per_frequency",
                     "C03.rot:mean_direction", "C03.rot:peak_direction", "C03.rot:invariants",
                     "C03.mirror:mean_direction", "C03.mirror:invariants"]
REQUIRED_REACH = ["spectrum.py:WaveSpectrum._spectral_weighted", "spectrum.py:WaveSpectrum._mean_direction",
                  "spectrum.py:WaveSpectrum._spread"]
TIMEOUT = {"quick": 600, "thorough": 3000}
N = {"quick": (8, 24), "thorough": (16, 120)}


def plan(tier, seed):
    ns, per = N[tier]
    shards = [{"n": per, "allk": tier == "thorough"} for _ in range(ns)]
    if tier == "thorough":
        shards.append({"repo_tests": True, "n": 0, "allk": False})
    return shards


def definitions(ctx, c, rng):
    s = gs.build(c)
    f = c["freq"]
    wit0 = {"gen": c}
    for bkind, fmin, fmax in bands(rng, f):
        wit = lambda: {"gen": c, "band": [fmin, fmax]}  # noqa
        nt = False
        vals = {}
        for name in ("mean_a1", "mean_b1", "mean_a2", "mean_b2", "mean_direction",
                     "mean_directional_spread", "peak_direction", "peak_directional_spread"):
            ok, v = guarded(ctx, "C03.no-exception", lambda: getattr(s, name)(fmin, fmax), wit,
                            key=f"C03:{name}:exception")
            if ok:
                vals[name] = np.asarray(getattr(v, "values", v), float)
        if "mean_a1" in vals and "mean_b1" in vals:
            r = np.hypot(vals["mean_a1"], vals["mean_b1"])
            nt = bool(np.any(r[~np.isnan(r)] > 1e-6))
        ctx.case(gs.descriptor(c) + (bkind,), nontrivial=nt,
                 sample={"kind": c["kind"], "layout": c["layout"], "band": [fmin, fmax],
                         "mean_direction": vals.get("mean_direction")})
    for name in ("mean_direction_per_frequency", "mean_spread_per_frequency"):
        guarded(ctx, "C03.no-exception", lambda: getattr(s, name), lambda: wit0)


def mirror_index(d):
    """index j(i) with d[j] == -d[i] (mod 360), or None if grid is not closed under negation"""
    d = np.asarray(d, float)
    out = np.empty(len(d), dtype=int)
    for i, di in enumerate(d):
        dev = np.abs(osp.circ_diff(d, -di))
        j = int(np.argmin(dev))
        if dev[j] > 1e-9:
            return None
        out[i] = j
    return out


def bulk(s, fmin, fmax):
    out = {}
    for name in ("mean_direction", "peak_direction", "mean_directional_spread", "peak_directional_spread",
                 "hm0", "tm01", "tm02", "peak_frequency"):
        v = getattr(s, name)(fmin, fmax)
        out[name] = np.asarray(getattr(v, "values", v), float)
    out["dir_per_f"] = np.asarray(s.mean_direction_per_frequency.values, float)
    out["spread_per_f"] = np.asarray(s.mean_spread_per_frequency.values, float)
    out["mean_r"] = np.hypot(np.asarray(s.mean_a1(fmin, fmax)), np.asarray(s.mean_b1(fmin, fmax)))
    out["r_per_f"] = np.hypot(s.a1.values, s.b1.values)
    return out


ANG = ("mean_direction", "peak_direction", "dir_per_f")
INV = ("mean_directional_spread", "peak_directional_spread", "hm0", "tm01", "tm02", "peak_frequency",
       "spread_per_f")


def compare(ctx, tag, base, other, shift, sign, wit):
    """other direction == sign*base + shift (mod 360); invariants equal"""
    for name in ANG:
        a, b = base[name], other[name]
        rr = base["r_per_f"] if name == "dir_per_f" else (base["mean_r"] if name == "mean_direction" else None)
        ok = ~(np.isnan(a) | np.isnan(b))
        if rr is not None:
            ok = ok & (rr > 1e-6)
        else:
            ok = ok & True
        dev = np.abs(osp.circ_diff(b[ok], sign * a[ok] + shift))
        if name == "peak_direction":
            # direction at the peak is ill-conditioned when the peak bin is nearly isotropic
            pass
        bound = 1e-6
        good = bool(np.all(dev <= bound))
        if name == "peak_direction" and not good:
            # tolerate peaks where |(a1,b1)| is tiny (atan2 ill conditioned)
            good = False
        ctx.check(f"C03.{tag}:{name if name != 'dir_per_f' else 'direction_per_frequency'}", good, wit,
                  {"base": a, "other": b, "shift": shift, "sign": sign}, key=f"C03:{tag}:{name}")
        if dev.size:
            ctx.ratio(f"C03.{tag}:{name if name != 'dir_per_f' else 'direction_per_frequency'}", float(dev.max()), bound)
    okall = True
    worst = None
    for name in INV:
        a, b = base[name], other[name]
        fin = ~(np.isnan(a) & np.isnan(b))
        # spreads near zero are sqrt-conditioned: absolute tolerance 1e-5 degrees
        atol = 1e-5 if "spread" in name else 0.0
        dev = np.abs(a[fin] - b[fin])
        bad = dev > atol + 1e-9 * np.abs(a[fin])
        if np.any(bad) or np.isnan(dev).any():
            okall = False
            worst = name
    ctx.check(f"C03.{tag}:invariants", okall, wit, {"first_bad": worst, "shift": shift}, key=f"C03:{tag}:invariants")


def metamorphic(ctx, c, rng, allk):
    d = np.asarray(c["dir"], float)
    nd = len(d)
    step = 360.0 / nd
    s = gs.build(c)
    f = c["freq"]
    bl = bands(rng, f)
    bkind, fmin, fmax = bl[int(rng.integers(0, 2))]
    wit = lambda: {"gen": c, "band": [fmin, fmax], "meta": True}  # noqa
    ok, base = guarded(ctx, "C03.no-exception", lambda: bulk(s, fmin, fmax), wit, key="C03:bulk:exception")
    if not ok:
        return
    ks = range(nd) if allk else sorted(set(int(k) for k in rng.integers(0, nd, 4)))
    # pin near-isotropic peak bins out: peak_direction needs |(a1,b1)| at peak > 1e-6
    for k in ks:
        c2 = dict(c)
        c2["E"] = np.roll(np.asarray(c["E"]), k, axis=-1)
        s2 = gs.build(c2)
        ok, other = guarded(ctx, "C03.no-exception", lambda: bulk(s2, fmin, fmax), wit, key="C03:bulk:exception")
        if ok:
            ctx.case(("rot", c["layout"], c["dkind"], nd, c["ekind"], bkind, "k0" if k == 0 else "k"),
                     nontrivial=k != 0)
            compare(ctx, "rot", base, other, k * step, 1.0, lambda: {"gen": c, "band": [fmin, fmax], "k": k})
    mi = mirror_index(d)
    if mi is not None:
        c3 = dict(c)
        c3["E"] = np.asarray(c["E"])[..., mi]
        s3 = gs.build(c3)
        ok, other = guarded(ctx, "C03.no-exception", lambda: bulk(s3, fmin, fmax), wit, key="C03:bulk:exception")
        if ok:
            ctx.case(("mirror", c["layout"], c["dkind"], nd, c["ekind"], bkind), nontrivial=True)
            compare(ctx, "mirror", base, other, 0.0, -1.0, lambda: {"gen": c, "band": [fmin, fmax], "mirror": True})


def make_2d_uniform(rng):
    nd = int(rng.choice([8, 12, 16, 24, 36, 48, 72, 90, 144]))
    step = 360.0 / nd
    kind = str(rng.choice(["neg-closed", "neg-closed", "offset"]))
    if kind == "neg-closed":
        d0 = float(rng.integers(-nd, nd)) * step / 2
    else:
        d0 = float(rng.uniform(-180, 180))
    ekind = str(rng.choice(["unimodal", "multimodal", "zeros"]))
    c = gs.case_2d(rng, nd=nd, dkind="uniform0", ekind=ekind, nf=int(rng.integers(2, 20)), allow_zero=False)
    c["dir"] = d0 + np.arange(nd) * step
    c["dkind"] = kind
    if rng.uniform() < 0.25:
        # mean direction within 1 degree of +-180: concentrate energy around 180
        th = np.deg2rad(c["dir"])
        m = np.deg2rad(180 + rng.uniform(-1, 1))
        lead = np.asarray(c["E"]).shape[:-2]
        e1 = np.asarray(c["E"]).sum(axis=-1, keepdims=True)
        c["E"] = e1 * np.exp(rng.uniform(2, 20) * (np.cos(th - m) - 1))
        c["ekind"] = "near180"
    return c


def history_io(c):
    reads = hist.reads_from(c, banded=("mean_direction", "mean_directional_spread", "mean_a1", "mean_b1", "mean_a2", "mean_b2",
                                       "peak_direction", "peak_directional_spread"),
                            plain=("mean_direction_per_frequency", "mean_spread_per_frequency"))
    return reads, hist.spectrum_mods(c, with_depth=False)


def run_shard(ctx, shard):
    if shard.get("repo_tests"):
        from ..core import run_repo_tests_under_contracts
        ms.install(ctx)
        run_repo_tests_under_contracts(ctx)
        return
    ms.install(ctx)
    rng = ctx.rng()
    for i in range(shard["n"]):
        sub = int(rng.integers(0, 2 ** 62))
        which = i % 3
        if which == 0:
            c = gs.case_1d(rng, allow_zero=True)
            if rng.uniform() < 0.3:
                # missing moments at some frequencies (documented: counted as 0 in the band averages)
                for nm in ("a1", "b1", "a2", "b2"):
                    arr = np.array(c[nm], dtype=float)
                    arr[rng.uniform(0, 1, arr.shape) > 0.8] = np.nan
                    c[nm] = arr
                c["nankind"] = "nan-moments"
                ctx.count("C03.cases_with_nan_moments")
            c["_sub"] = sub
            c["_mode"] = "def"
            definitions(ctx, c, np.random.default_rng(sub))
            if "nankind" not in c or c.get("nankind") != "nan-moments":
                hist.judge_history(ctx, "C03", c, np.random.default_rng(sub + 7), *history_io(c))
        elif which == 1:
            c = gs.case_2d(rng, allow_zero=False)
            c["_sub"] = sub
            c["_mode"] = "def"
            definitions(ctx, c, np.random.default_rng(sub))
            hist.judge_history(ctx, "C03", c, np.random.default_rng(sub + 7), *history_io(c))
        else:
            c = make_2d_uniform(rng)
            c["_sub"] = sub
            c["_mode"] = "meta"
            c["_allk"] = bool(shard["allk"])
            definitions(ctx, c, np.random.default_rng(sub))
            metamorphic(ctx, c, np.random.default_rng(sub), shard["allk"])


def replay(ctx, case):
    ms.install(ctx)
    if "method" in case:
        ms.call_case(case)
        return
    g = case["gen"]
    if "history" in case:
        hist.run_history(ctx, "C03", g, case["history"], *history_io(g))
        return
    definitions(ctx, g, np.random.default_rng(int(g["_sub"])))
    if g.get("_mode") == "meta":
        metamorphic(ctx, g, np.random.default_rng(int(g["_sub"])), bool(g.get("_allk")))
