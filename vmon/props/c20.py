"""C20 - time integration: exact stencils, linearity, start value, jitter fallback."""
from __future__ import annotations

from fractions import Fraction

import numpy as np

from ..core import guarded

PROPERTY = "C20"
LEVEL = "exploration"
RULE = ("(a) all 36 stencils (order 1..8 x implicit points 1..order) enumerated and compared with Lagrange "
        "basis integrals in exact rational arithmetic (this part is exhaustive); (b) seeded signals: "
        "polynomials up to degree 5, random signals, lengths 2..2000, uniform grids and grids with isolated/"
        "repeated jitter of 0.5/2/20 % and gaps, random start values, orders 1..8 and all n; per-step "
        "increments are classified as must-be-stencil / must-be-trapezoid / either. distinct = (signal kind, "
        "grid kind, order, n, length class); non-trivial = length >= 3 and non-constant signal.")
ASSUMPTIONS = ["the width of the trapezoid zone after a disturbance is not fixed by the property: steps within "
               "2*order samples of a disturbance accept either rule"]
EXHAUSTIVE = {"quick": False, "thorough": False}
REQUIRED_MONITORS = ["C20.stencil==lagrange-integral", "C20.stencil:sum=1", "C20.stencil:polynomial-exact",
                     "C20.start_value", "C20.linear", "C20.uniform:exact-cubic-step", "C20.jitter:trapezoid-step",
                     "C20.ends:trapezoid-step", "C20.transition:stencil-or-trapezoid"]
REQUIRED_COUNTERS = {"C20.stencils_enumerated": 36, "C20.steps_must_stencil": 50, "C20.steps_must_trapezoid": 20}
TIMEOUT = {"quick": 600, "thorough": 2400}
N = {"quick": (4, 120), "thorough": (16, 15000)}


def plan(tier, seed):
    ns, per = N[tier]
    shards = [{"mode": "stencils"}]
    shards += [{"mode": "signals", "n": per} for _ in range(ns)]
    if tier == "thorough":
        shards += [{"mode": "signals", "n": per // 4, "env": {"NUMBA_BOUNDSCHECK": "1"}},
                   {"mode": "stencils", "env": {"NUMBA_BOUNDSCHECK": "1"}}]
    return shards


# ------------------------------------------------------------------ exact oracle
def exact_stencil(order, n):
    """integrals over [m-1, m] of the Lagrange basis polynomials on nodes 0..order-1, m = order-n"""
    m = order - n
    out = []
    for i in range(order):
        # polynomial coefficients (ascending) of L_i
        poly = [Fraction(1)]
        den = Fraction(1)
        for j in range(order):
            if j == i:
                continue
            # multiply poly by (x - j)
            new = [Fraction(0)] * (len(poly) + 1)
            for k, a in enumerate(poly):
                new[k + 1] += a
                new[k] += -j * a
            poly = new
            den *= (i - j)
        integ = Fraction(0)
        for k, a in enumerate(poly):
            integ += a / den * (Fraction(m) ** (k + 1) - Fraction(m - 1) ** (k + 1)) / (k + 1)
        out.append(integ)
    return out


def judge_stencils(ctx):
    from ocean_science_utilities.tools.time_integration import integration_stencil
    for order in range(1, 9):
        for n in range(1, order + 1):
            case = {"kind": "stencil", "order": order, "n": n}
            ok, w = guarded(ctx, "C20.no-exception", lambda: integration_stencil(order, n), case)
            ctx.case(("stencil", order, n), nontrivial=True, sample=case if (order, n) in ((4, 1), (8, 3)) else None)
            ctx.count("C20.stencils_enumerated")
            if not ok:
                continue
            ex = exact_stencil(order, n)
            exf = np.array([float(x) for x in ex])
            w = np.asarray(w, float)
            if w.shape != exf.shape:
                ctx.check("C20.stencil==lagrange-integral", False, case, {"shape": w.shape}, key="C20:stencil")
                continue
            scale = float(np.max(np.abs(exf)))
            ctx.close("C20.stencil==lagrange-integral", w, exf, atol=1e-9 * scale, case=case, key="C20:stencil")
            ctx.close("C20.stencil:sum=1", np.sum(w), 1.0, atol=1e-9 * scale * order, case=case, key="C20:stencil:sum")
            m = order - n
            nodes = np.arange(order, dtype=float)
            for p in range(order):
                want = float((Fraction(m) ** (p + 1) - Fraction(m - 1) ** (p + 1)) / (p + 1))
                got = float(np.sum(w * nodes ** p))
                mag = float(np.sum(np.abs(w) * nodes ** p)) + 1.0
                ctx.close("C20.stencil:polynomial-exact", got, want, atol=1e-9 * mag, case=dict(case, p=p),
                          key="C20:stencil:poly")


# ------------------------------------------------------------------ signals
def make_grid(rng, nt):
    kind = str(rng.choice(["uniform", "jitter-small", "jitter-isolated", "jitter-repeated", "gap", "uniform",
                           "firstgap+jitter", "gap+jitter"]))
    dt0 = float(rng.choice([0.4, 0.5, 1.0, 2.5]))
    dt = np.full(nt - 1, dt0)
    if kind == "jitter-small":
        dt = dt * (1 + rng.uniform(-0.002, 0.002, nt - 1))  # < 0.5 % step-to-step
    elif kind == "jitter-isolated" and nt > 3:
        for _ in range(int(rng.integers(1, 3))):
            i = int(rng.integers(0, nt - 1))
            dt[i] *= float(rng.choice([1.02, 0.98, 1.2, 0.8]))
    elif kind == "jitter-repeated":
        mask = rng.uniform(0, 1, nt - 1) < 0.15
        dt = np.where(mask, dt * rng.choice([1.02, 0.98, 1.2, 0.8], nt - 1), dt)
    elif kind == "gap" and nt > 3:
        i = int(rng.integers(0, nt - 1))
        dt[i] *= float(rng.integers(3, 50))
    elif kind in ("firstgap+jitter", "gap+jitter") and nt > 3:
        # an unusually long interval (the very first one, or anywhere) *and* later jitter of 2 % / 20 % of the local step
        i = 0 if kind == "firstgap+jitter" else int(rng.integers(0, nt - 1))
        dt[i] *= float(rng.integers(3, 50))
        for _ in range(int(rng.integers(1, 4))):
            j = int(rng.integers(0, nt - 1))
            if j != i:
                dt[j] *= float(rng.choice([1.02, 0.98, 1.2, 0.8]))
    t = np.concatenate([[float(rng.uniform(-5, 5))], np.zeros(nt - 1)])
    t[1:] = t[0] + np.cumsum(dt)
    return kind, t


def make_signal(rng, t):
    kind = str(rng.choice(["poly1", "poly2", "poly3", "poly3", "poly5", "random", "sine"]))
    tau = (t - t[0]) / max(t[-1] - t[0], 1e-9)
    if kind.startswith("poly"):
        deg = int(kind[4:])
        coef = rng.uniform(-2, 2, deg + 1)
        coef[-1] = rng.uniform(0.5, 2) * rng.choice([-1, 1])
        x = sum(c * tau ** k for k, c in enumerate(coef))
        return kind, x, coef
    if kind == "random":
        return kind, rng.normal(0, 1, len(t)), None
    return kind, np.sin(2 * np.pi * rng.uniform(0.5, 5) * tau + rng.uniform(0, 6)), None


def exact_poly_increment(coef, t, i):
    """integral over [t[i-1], t[i]] of sum c_k tau^k, tau=(t-t0)/T.  b^(k+1)-a^(k+1) cancels badly for long signals
    (a, b differ by 1/nt), so the difference is taken in exact rational arithmetic."""
    T = max(t[-1] - t[0], 1e-9)
    a = Fraction(float((t[i - 1] - t[0]) / T))
    b = Fraction(float((t[i] - t[0]) / T))
    tot = Fraction(0)
    for k, c in enumerate(coef):
        tot += Fraction(float(c)) * (b ** (k + 1) - a ** (k + 1)) / (k + 1)
    return T * float(tot)


def judge_signal(ctx, c):
    from ocean_science_utilities.tools.time_integration import integrate
    t = np.asarray(c["time"], float)
    x = np.asarray(c["signal"], float)
    order, n, start = int(c["order"]), int(c["n"]), float(c["start"])
    nt = len(t)
    nontrivial = nt >= 3 and float(np.ptp(x)) > 0
    ctx.case((c["skind"], c["gkind"], order, n, "short" if nt < 3 * order else "long"), nontrivial=nontrivial,
             sample={"time": t[:12], "signal": x[:12], "order": order, "n": n, "start": start, "nt": nt})
    ok, out = guarded(ctx, "C20.no-exception", lambda: integrate(t, x, order, n, start), c, key="C20:exception")
    if not ok:
        return
    out = np.asarray(out, float)
    ctx.check("C20.shape", out.shape == x.shape, c, key="C20:shape")
    if out.shape != x.shape:
        return
    ctx.check("C20.start_value", out[0] == start, c, {"out0": float(out[0]), "start": start}, key="C20:start_value")
    # linearity
    y = np.asarray(c["signal2"], float)
    al, be = float(c["alpha"]), float(c["beta"])
    i0 = np.asarray(integrate(t, x, order, n, 0.0), float)
    i1 = np.asarray(integrate(t, y, order, n, 0.0), float)
    i2 = np.asarray(integrate(t, al * x + be * y, order, n, 0.0), float)
    scale = float(np.max(np.abs(al * i0) + np.abs(be * i1), initial=0)) + 1e-300
    # the condition number of high order stencils grows with order; 1e-10 of the scale
    ctx.close("C20.linear", i2, al * i0 + be * i1, atol=1e-10 * scale * max(1, 2 ** (order - 4)), case=c, key="C20:linear")
    # start value shifts everything
    ctx.close("C20.start-shift", out - start, i0, atol=1e-12 * (scale + abs(start)), case=c, key="C20:start_value")

    # the time axis as stored by loggers: integer seconds (int64 / int32) or float32 - the integral is a float64 series
    # of the signal all the same (integer-valued copies of this grid, so that every representation is exact)
    ti = np.round((t - t[0]) / float(np.min(np.diff(t))) * 4).astype("int64") if nt >= 2 else None
    if ti is not None and nt >= 3 and np.all(np.diff(ti) > 0) and int(ti[-1]) < 2 ** 22:
        ref = np.asarray(integrate(ti.astype("float64"), x, order, n, start), float)
        for dtp in ("int64", "int32", "float32"):
            okd, od = guarded(ctx, "C20.no-exception", lambda: integrate(ti.astype(dtp), x, order, n, start), c,
                              key="C20:exception:time-dtype")
            if okd:
                od = np.asarray(od)
                sc_ = float(np.max(np.abs(ref), initial=0)) + 1e-300
                ctx.count("C20.time_axis_dtypes_tried")
                ctx.check("C20.time-axis-dtype-does-not-matter", od.shape == ref.shape and bool(np.allclose(od.astype(float), ref, rtol=1e-12, atol=1e-12 * sc_)),
                          c, {"dtype": dtp, "out_dtype": str(od.dtype), "got": od[:6], "want": ref[:6]}, key="C20:time-dtype:" + dtp)
    # per step classification
    dt = np.diff(t)
    inc = np.diff(out)
    trap = 0.5 * (x[1:] + x[:-1]) * dt
    m = order - n
    # disturbance positions (step indices ii=1..nt-1; dt index ii-1)
    rel = np.abs(np.diff(dt)) / dt[1:] if nt > 2 else np.array([])
    disturbed_steps = set(int(i) + 2 for i in np.where(rel > 0.0099)[0])  # step ii where dt[ii-1] vs dt[ii-2] differ
    # irregularities below the 1 % threshold may legitimately be ignored by the implementation (the high-order stencil
    # is then applied to a slightly non-uniform stretch: neither exact nor trapezoid) - steps near them are not judged
    small_steps = [int(i) + 2 for i in np.where((rel > 1e-9) & (rel <= 0.011))[0]]
    coef_mag = float(np.sum(np.abs(c["coef"]))) if c.get("coef") is not None else 0.0
    coef = c.get("coef")
    poly_deg = None if coef is None else len(coef) - 1
    for ii in range(1, nt):
        must_trap = False
        must_sten = False
        # ends: stencil would reach outside the array
        if ii - m < 0 or ii + n - 1 > nt - 1 or ii < order:
            must_trap = (ii - m < 0) or (ii + n - 1 > nt - 1)
        # jitter: this dt differs from the previous dt by more than 1 % (1.1 % margin)
        if ii >= 2:
            r = abs(dt[ii - 1] - dt[ii - 2]) / dt[ii - 1]
            if r > 0.011:
                must_trap = True
        if not must_trap:
            far = all(abs(ii - dsp) > 2 * order + n for dsp in disturbed_steps)
            if far and ii > 2 * order + n and ii + n - 1 + 2 * order < nt and c["gkind"] != "jitter-small":
                must_sten = True
        if small_steps and any(abs(ii - q) <= 2 * order + n for q in small_steps) and not must_trap:
            ctx.count("C20.steps_not_judged(sub-threshold irregularity nearby)")
            continue
        # local scale + rounding of the sampled polynomial itself (absolute, matters near its zero crossings)
        tscale = abs(trap[ii - 1]) + np.max(np.abs(x[max(0, ii - order):ii + order])) * dt[ii - 1] + 1e-300
        tscale += 1e-3 * coef_mag * dt[ii - 1]
        if must_trap:
            ctx.count("C20.steps_must_trapezoid")
            name = "C20.jitter:trapezoid-step" if not (ii - m < 0 or ii + n - 1 > nt - 1) else "C20.ends:trapezoid-step"
            ok = abs(inc[ii - 1] - trap[ii - 1]) <= 1e-9 * tscale
            if not ctx.check(name, ok, c, {"step": ii, "increment": float(inc[ii - 1]), "trapezoid": float(trap[ii - 1])},
                             key="C20:trapezoid"):
                return
        elif (not must_sten and poly_deg is not None and poly_deg < order and c["gkind"] != "jitter-small"):
            # transition zone: the property does not fix its width, but every step is one of the two rules
            ex = exact_poly_increment(coef, t, ii)
            tol = 1e-9 * tscale * max(1, 4 ** (order - 4))
            ok = abs(inc[ii - 1] - ex) <= tol or abs(inc[ii - 1] - trap[ii - 1]) <= tol
            ctx.count("C20.steps_transition_zone")
            if not ctx.check("C20.transition:stencil-or-trapezoid", ok, c,
                             {"step": ii, "increment": float(inc[ii - 1]), "exact": float(ex),
                              "trapezoid": float(trap[ii - 1])}, key="C20:transition"):
                return
        elif must_sten and poly_deg is not None and poly_deg < order:
            ctx.count("C20.steps_must_stencil")
            ex = exact_poly_increment(coef, t, ii)
            # conditioning of the stencil: sum|w| * max|x| * dt * eps
            ok = abs(inc[ii - 1] - ex) <= 1e-10 * tscale * max(1, 4 ** (order - 4))
            name = "C20.uniform:exact-cubic-step" if order == 4 else "C20.uniform:exact-polynomial-step"
            if not ctx.check(name, ok, c, {"step": ii, "increment": float(inc[ii - 1]), "exact": float(ex),
                                           "trapezoid": float(trap[ii - 1])}, key="C20:exact-step"):
                return


def make_case(rng):
    nt = int(rng.choice([2, 3, 4, 5, 7, 9, 12, 20, 40, 80, 150, 400, 2000]))
    gkind, t = make_grid(rng, nt)
    skind, x, coef = make_signal(rng, t)
    if rng.uniform() < 0.55:
        order, n = 4, 1
    else:
        order = int(rng.integers(1, 9))
        n = int(rng.integers(1, order + 1))
    c = {"kind": "signal", "gkind": gkind, "skind": skind, "time": t, "signal": x, "order": order, "n": n,
         "start": float(rng.choice([0.0, 5.0, -3.25, rng.normal()])), "signal2": rng.normal(0, 1, nt),
         "alpha": float(rng.uniform(-3, 3)), "beta": float(rng.uniform(-3, 3))}
    if coef is not None:
        c["coef"] = coef
    return c


def run_shard(ctx, shard):
    if shard["mode"] == "stencils":
        judge_stencils(ctx)
        return
    rng = ctx.rng()
    for _ in range(shard["n"]):
        judge_signal(ctx, make_case(rng))


def replay(ctx, case):
    if case.get("kind") == "stencil":
        judge_stencils(ctx)
    else:
        judge_signal(ctx, case)
