"""C14 - periodic coordinates and angular data interpolate across the wrap."""
from __future__ import annotations

import numpy as np

from ..core import guarded
from ..oracles.interp import ref_interp_axis0
from ..oracles.spectral import circ_diff

PROPERTY = "C14"
LEVEL = "exploration"
RULE = ("(A) periodic coordinate ('direction' / 'longitude', period 360): grids of 4..72 nodes with arbitrary start, "
        "uniform and non-uniform, targets in [-1000,1000] and the same targets shifted by multiples of 360; reference "
        "= linear interpolation on the grid extended by one period on both sides; (B) angular data ('*direction*' "
        "variables -> [0,360), 'longitude' -> same angle mod 360) along a time axis with jumps in (0,179.9] U "
        "[180.1,360) crossing the seam both ways: result on the shorter arc, node values at weight 0/1, bisector at "
        "1/2; (C) interpolate_periodic, interpolate_dataframe_time, Track.interpolate: exactly shortest-arc linear; "
        "(D) gridded (time,lat,lon) data interpolated at track points across the antimeridian with "
        "interpolate_at_points vs a tri-linear reference on the longitude-extended grid; (E) interpolate_dataset with a "
        "Track geometry on datasets holding 1-3 direction variables plus a plain variable. distinct = (part, "
        "coordinate/variable, grid kind, seam crossing sense, jump class); non-trivial = a target in the wrap bin or "
        "a neighbour pair straddling the seam.")
ASSUMPTIONS = ["angular tolerance 3e-5 degrees divided by the resultant length (implementation accumulates unit "
               "vectors in complex64)", "jumps of exactly 180 degrees are ambiguous and excluded"]
REQUIRED_MONITORS = ["C14.periodic-coordinate==extended-grid-reference", "C14.periodic-coordinate:never-NaN",
                     "C14.periodic-coordinate:+360k-equal", "C14.angular:on-shorter-arc", "C14.angular:nodes",
                     "C14.angular:bisector", "C14.angular:range", "C14.interpolate_periodic==shortest-arc-linear",
                     "C14.dataframe:direction", "C14.track:longitude", "C14.at_points==trilinear-periodic", "C14.geometry:direction-on-shorter-arc",
                     "C14.geometry:plain-variable-periodic-longitude"]
REQUIRED_REACH = ["grid.py:enclosing_points_1d", "math.py:wrapped_difference",
                  "nd_interp.py:NdInterpolator._periodic_data_interpolator", "general.py:interpolate_periodic",
                  "dataframe.py:interpolate_dataframe_time", "geometry.py:Track.interpolate",
                  "dataset.py:interpolate_at_points", "dataarray.py:interpolate_track_data_arrray",
                  "dataset.py:interpolate_dataset"]
REQUIRED_COUNTERS = {"C14.descending_periodic_grids": 3, "C14.targets_in_wrap_bin": 5, "C14.pairs_straddling_seam": 5, "C14.long_jumps(>180)": 5,
                     "C14.track_points_across_antimeridian": 3}
TIMEOUT = {"quick": 600, "thorough": 3000}
N = {"quick": (8, 800), "thorough": (16, 12000)}


def plan(tier, seed):
    ns, per = N[tier]
    return [{"n": per} for _ in range(ns)]


# ------------------------------------------------------------------ A: periodic coordinate
def case_coord(rng):
    name = str(rng.choice(["direction", "longitude"]))
    n = int(rng.choice([4, 5, 8, 12, 24, 36, 72]))
    gk = str(rng.choice(["uniform", "nonuniform"]))
    start = float(rng.uniform(-180, 360)) if rng.uniform() < 0.7 else float(rng.choice([0.0, -180.0]))
    if gk == "uniform":
        xp = start + np.arange(n) * 360.0 / n
    else:
        w = rng.uniform(0.5, 1.5, n)
        w = w / w.sum() * 360.0
        xp = start + np.cumsum(w) - w[0]
    desc = bool(rng.uniform() < 0.3)
    if desc:
        xp = xp[::-1].copy()  # a descending periodic grid (345, 315, ..., 15)
    rank = int(rng.integers(1, 4))
    axis = int(rng.integers(0, rank))
    other = ["p", "q"][: rank - 1]
    dims = other[:axis] + [name] + other[axis:]
    shape = [int(rng.integers(1, 4)) for _ in dims]
    shape[axis] = n
    vals = rng.normal(0, 3, shape)
    m = int(rng.integers(1, 10))
    tg = rng.uniform(-1000, 1000, m)
    if desc:
        xp_asc = xp[::-1]
    else:
        xp_asc = xp
    # force some targets into the wrap bin and exactly onto nodes
    if rng.uniform() < 0.7:
        tg[0] = xp_asc[-1] + rng.uniform(0, 1) * (xp_asc[0] + 360 - xp_asc[-1]) + 360 * int(rng.integers(-2, 3))
    if rng.uniform() < 0.3 and m > 1:
        tg[1] = xp[int(rng.integers(0, n))] + 360 * int(rng.integers(-2, 3))
    return {"part": "coord", "name": name, "xp": xp, "gk": gk + ("-descending" if desc else ""), "dims": dims, "axis": axis, "values": vals,
            "targets": tg, "shift": int(rng.choice([-3, -1, 1, 2]))}


def judge_coord(ctx, c):
    import xarray
    from ocean_science_utilities.interpolate.dataset import interpolate_dataset_along_axis
    name, xp, vals, axis = c["name"], np.asarray(c["xp"], float), np.asarray(c["values"], float), int(c["axis"])
    tg = np.asarray(c["targets"], float)
    coords = {name: xp}
    for d, s in zip(c["dims"], vals.shape):
        if d != name:
            coords[d] = np.arange(s, dtype=float)
    ds = xarray.Dataset({"v": (c["dims"], vals)}, coords=coords)
    xp_in = xp
    if xp[-1] < xp[0]:
        ctx.count("C14.descending_periodic_grids")
    v_in = vals
    if xp[-1] < xp[0]:  # reference works on the ascending copy
        xp = xp[::-1]
    red = (tg - xp[0]) % 360.0 + xp[0]
    inwrap = red > xp[-1]
    ctx.count("C14.targets_in_wrap_bin", int(inwrap.sum()))
    ctx.case(("coord", name, c["gk"], len(xp), vals.ndim, axis), nontrivial=bool(inwrap.any()),
             sample={"coord": name, "xp": xp[:5], "targets": tg[:5]})
    ok, out = guarded(ctx, "C14.no-exception", lambda: interpolate_dataset_along_axis(tg, ds, coordinate_name=name), c,
                      key="C14:exception:coord")
    if not ok:
        return
    g = np.moveaxis(np.asarray(out["v"].values, float), axis, 0)
    v0 = np.moveaxis(vals, axis, 0)
    if xp_in[-1] < xp_in[0]:
        v0 = v0[::-1]
    xe = np.concatenate([xp - 360.0, xp, xp + 360.0])
    ve = np.concatenate([v0, v0, v0], axis=0)
    ref, _, _ = ref_interp_axis0(xe, ve, red)
    scale = float(np.max(np.abs(vals)))
    if g.shape != ref.shape:
        ctx.check("C14.periodic-coordinate==extended-grid-reference", False, c, {"shape": g.shape}, key="C14:coord")
        return
    ctx.check("C14.periodic-coordinate:never-NaN", not np.isnan(g).any(), c, {"got": g}, key="C14:coord:nan")
    # tolerance: reduction modulo 360 of targets up to 1000 loses ~1e-13 relative of the bin position
    ctx.close("C14.periodic-coordinate==extended-grid-reference", g, ref, atol=1e-9 * scale, rtol=1e-9, case=c,
              key="C14:coord")
    if vals.ndim == 1:
        # the same through interpolate_periodic with a periodic x
        from ocean_science_utilities.interpolate.general import interpolate_periodic
        okp, gp = guarded(ctx, "C14.no-exception", lambda: interpolate_periodic(xp_in, vals, tg, x_period=360), c,
                          key="C14:exception:interpolate_periodic:x_period")
        if okp:
            ctx.close("C14.interpolate_periodic(x_period)==extended-grid-reference", np.asarray(gp, float), ref, atol=1e-9 * scale,
                      rtol=1e-9, case=c, key="C14:interpolate_periodic:x_period")
    tg2 = tg + 360.0 * int(c["shift"])
    ok, out2 = guarded(ctx, "C14.no-exception", lambda: interpolate_dataset_along_axis(tg2, ds, coordinate_name=name), c,
                       key="C14:exception:coord")
    if ok:
        g2 = np.moveaxis(np.asarray(out2["v"].values, float), axis, 0)
        ctx.close("C14.periodic-coordinate:+360k-equal", g2, g, atol=1e-9 * scale, rtol=1e-9, case=c, key="C14:coord:shift")


# ------------------------------------------------------------------ B: angular data
def angular_series(rng, n):
    """angles with hostile jumps between successive samples"""
    a = np.empty(n)
    a[0] = rng.uniform(0, 360)
    jumps = np.empty(n - 1)
    for i in range(n - 1):
        r = rng.uniform()
        if r < 0.5:
            j = rng.uniform(0.01, 179.9)
        elif r < 0.6:
            j = rng.choice([179.0, 179.9, 170.0])
        else:
            j = rng.uniform(180.1, 359.9)  # the long way is > 180: shorter arc is the other sense
        jumps[i] = j * rng.choice([-1, 1])
        a[i + 1] = a[i] + jumps[i]
    return a, jumps


def case_angular(rng):
    var = str(rng.choice(["mean_direction", "peakDirection", "longitude"]))
    n = int(rng.integers(2, 12))
    t = np.cumsum(rng.integers(60, 7200, n)).astype("int64") + int(rng.integers(0, 10 ** 9))
    a, jumps = angular_series(rng, n)
    if var == "longitude":
        stored = (a + 180) % 360 - 180
    else:
        stored = a % 360
    extra = bool(rng.uniform() < 0.4)
    if extra:
        b, _ = angular_series(rng, n)
        stored = np.stack([stored, (b % 360) if var != "longitude" else ((b + 180) % 360 - 180)], axis=1)
    # targets: nodes, midpoints, random inside
    tg = []
    for i in range(n - 1):
        tg.append(int(t[i]))
        tg.append(int((t[i] + t[i + 1]) // 2) if (t[i] + t[i + 1]) % 2 == 0 else int(t[i] + 1))
        tg.append(int(rng.integers(t[i], t[i + 1] + 1)))
    tg.append(int(t[-1]))
    return {"part": "angular", "var": var, "time": t, "stored": stored, "targets": np.array(sorted(set(tg)), dtype="int64")}


def judge_angular(ctx, c):
    import xarray
    from ocean_science_utilities.interpolate.dataset import interpolate_dataset_along_axis
    var = c["var"]
    t = np.asarray(c["time"]).astype("int64")
    stored = np.asarray(c["stored"], float)
    tg = np.asarray(c["targets"]).astype("int64")
    t64 = t.astype("datetime64[s]").astype("datetime64[ns]")
    dims = ("time",) if stored.ndim == 1 else ("time", "p")
    coords = {"time": t64}
    if stored.ndim == 2:
        coords["p"] = np.arange(stored.shape[1], dtype=float)
    ds = xarray.Dataset({var: (dims, stored)}, coords=coords)
    tg64 = tg.astype("datetime64[s]").astype("datetime64[ns]")
    s2 = stored.reshape(len(t), -1)
    d = circ_diff(s2[1:], s2[:-1])
    straddle = np.abs(s2[1:] - s2[:-1]) > 180
    ctx.count("C14.pairs_straddling_seam", int(straddle.sum()))
    ctx.count("C14.long_jumps(>180)", int((np.abs(s2[1:] - s2[:-1]) > 180).sum()))
    ctx.case(("angular", var, stored.ndim, "straddle" if straddle.any() else "plain"), nontrivial=bool(straddle.any()),
             sample={"var": var, "angles": stored[:6], "time": t[:6]})
    ok, out = guarded(ctx, "C14.no-exception", lambda: interpolate_dataset_along_axis(tg64, ds, coordinate_name="time"), c,
                      key="C14:exception:angular")
    if not ok:
        return
    g = np.asarray(out[var].values, float).reshape(len(tg), -1)
    if var != "longitude":
        ctx.check("C14.angular:range", bool(np.all((g >= 0) & (g < 360))), c, {"min": float(g.min()), "max": float(g.max())},
                  key="C14:angular:range")
    # (longitude data: the property only requires an equivalent angle modulo 360 - no range is judged)
    for j, x in enumerate(tg):
        i0 = int(np.searchsorted(t, x, side="right") - 1)
        if i0 >= len(t) - 1:
            i0 = len(t) - 2
            w = 1.0
        else:
            w = (x - t[i0]) / (t[i0 + 1] - t[i0])
        a0, a1 = s2[i0], s2[i0 + 1]
        delta = circ_diff(a1, a0)  # signed shorter-arc difference
        R = np.abs((1 - w) * np.exp(1j * np.deg2rad(a0)) + w * np.exp(1j * np.deg2rad(a1)))
        tol = 3e-5 / np.maximum(R, 1e-6)
        off = circ_diff(g[j], a0)  # signed offset of the result from the left neighbour
        if w == 0.0 or w == 1.0:
            node = a0 if w == 0.0 else a1
            ctx.check("C14.angular:nodes", bool(np.all(np.abs(circ_diff(g[j], node)) <= 3e-5)), c,
                      {"target": int(x), "got": g[j], "node": node}, key="C14:angular:nodes")
            continue
        frac_ok = np.abs(delta) < 179.95
        # on the shorter arc: offset has the sign of delta and does not exceed it
        on_arc = (np.sign(delta) * off >= -tol) & (np.sign(delta) * off <= np.abs(delta) + tol)
        if not ctx.check("C14.angular:on-shorter-arc", bool(np.all(on_arc | ~frac_ok)), c,
                         {"target": int(x), "left": a0, "right": a1, "got": g[j], "w": w}, key="C14:angular:arc"):
            return
        if abs(w - 0.5) < 1e-12:
            bis = a0 + 0.5 * delta
            ctx.check("C14.angular:bisector", bool(np.all((np.abs(circ_diff(g[j], bis)) <= tol) | ~frac_ok)), c,
                      {"target": int(x), "left": a0, "right": a1, "got": g[j]}, key="C14:angular:bisector")


# ------------------------------------------------------------------ C: interpolate_periodic & friends
def shortest_arc_linear(xp, fp, x):
    out = np.full(len(x), np.nan)
    for j, xx in enumerate(x):
        if xx < xp[0] or xx > xp[-1]:
            continue
        i0 = int(np.searchsorted(xp, xx, side="right") - 1)
        if i0 >= len(xp) - 1:
            out[j] = fp[-1]
            continue
        w = (xx - xp[i0]) / (xp[i1 := i0 + 1] - xp[i0])
        out[j] = fp[i0] + w * circ_diff(fp[i1], fp[i0])
    return out


def case_series(rng):
    n = int(rng.integers(2, 12))
    t = np.cumsum(rng.integers(60, 7200, n)).astype("int64") + int(rng.integers(0, 10 ** 9))
    a, _ = angular_series(rng, n)
    b, _ = angular_series(rng, n)
    m = int(rng.integers(1, 12))
    tg = np.sort(rng.integers(t[0] - 3600, t[-1] + 3600, m)).astype("int64")
    tg[0] = t[int(rng.integers(0, n))]
    a = a % 360
    if rng.uniform() < 0.4 and n >= 2:
        # a pair that is symmetric about north with the target exactly half way: the interpolated direction is
        # exactly on the seam and must come back as 0.0 (in [0,360)), not 360.0
        i = int(rng.integers(0, n - 1))
        dlt = float(rng.integers(1, 60))
        up = bool(rng.uniform() < 0.5)
        a[i], a[i + 1] = (360.0 - dlt, dlt) if up else (dlt, 360.0 - dlt)
        gap = int(t[i + 1] - t[i])
        if gap % 2:
            t[i + 1:] += 1
        tg = np.append(tg, (t[i] + t[i + 1]) // 2)
        if rng.uniform() < 0.3:
            a[i] = 360.0 if up else a[i]  # an instrument reporting 360.0 itself
    tg = np.sort(tg)
    return {"part": "series", "time": t, "dir": a, "lon": (b + 180) % 360 - 180,
            "lat": rng.uniform(-60, 60, n), "hs": rng.uniform(0, 5, n), "targets": tg,
            "nan_at": int(rng.integers(0, n)) if (n >= 4 and rng.uniform() < 0.3) else None}


def judge_series(ctx, c):
    import pandas as pd
    from datetime import datetime, timezone
    from ocean_science_utilities.interpolate.general import interpolate_periodic
    from ocean_science_utilities.interpolate.dataframe import interpolate_dataframe_time
    from ocean_science_utilities.interpolate.geometry import Track
    t = np.asarray(c["time"]).astype("int64")
    tg = np.asarray(c["targets"]).astype("int64")
    d, lon, lat, hs = (np.asarray(c[k], float) for k in ("dir", "lon", "lat", "hs"))
    inside = (tg >= t[0]) & (tg <= t[-1])
    if c.get("nan_at") is not None and len(t) >= 4:
        # one missing direction sample: intervals that do not touch it are interpolated as before (those that do are
        # not judged)
        d = d.copy()
        jn = int(c["nan_at"]) % len(t)
        d[jn] = np.nan
        j0 = np.clip(np.searchsorted(t, tg, side="right") - 1, 0, len(t) - 2)
        inside = inside & np.isfinite(d[j0]) & np.isfinite(d[j0 + 1])
        ctx.count("C14.series_with_a_missing_direction_sample")
    crossing = bool(np.any(np.abs(np.diff(lon)) > 180))
    ctx.count("C14.pairs_straddling_seam", int((np.abs(np.diff(np.where(np.isnan(d), 0.0, d))) > 180).sum()))
    ctx.case(("series", "cross" if crossing else "plain", len(t)), nontrivial=bool(inside.any()),
             sample={"time": t[:5], "direction": d[:5], "longitude": lon[:5], "targets": tg[:5]})
    want_d = shortest_arc_linear(t.astype(float), np.where(np.isnan(d), 0.0, d), tg.astype(float))
    # (1) interpolate_periodic directly
    ok, got = guarded(ctx, "C14.no-exception",
                      lambda: interpolate_periodic(t.astype(float), d, tg.astype(float), fp_period=360, fp_discont=360),
                      c, key="C14:exception:interpolate_periodic")
    if ok:
        got = np.asarray(got, float)
        ctx.check("C14.interpolate_periodic==shortest-arc-linear",
                  bool(np.all(np.abs(circ_diff(got[inside], want_d[inside])) <= 1e-9)
                       and np.all(np.isnan(got[(tg < t[0]) | (tg > t[-1])]))
                       and np.all((got[inside] >= 0) & (got[inside] < 360))), c,
                  {"got": got, "want": want_d % 360}, key="C14:interpolate_periodic")
    # (2) data frame
    t64 = t.astype("datetime64[s]").astype("datetime64[ns]")
    df = pd.DataFrame({"time": t64, "meanDirection": d, "significantWaveHeight": hs, "latitude": lat})
    new_time = tg.astype("datetime64[s]").astype("datetime64[ns]")
    ok, out = guarded(ctx, "C14.no-exception", lambda: interpolate_dataframe_time(df, new_time), c,
                      key="C14:exception:dataframe")
    if ok:
        gd = np.asarray(out["meanDirection"].values, float)
        ctx.check("C14.dataframe:direction",
                  bool(np.all(np.abs(circ_diff(gd[inside], want_d[inside])) <= 1e-9)
                       and np.all((gd[inside] >= 0) & (gd[inside] < 360))), c, {"got": gd, "want": want_d % 360},
                  key="C14:dataframe:direction")
        gh = np.asarray(out["significantWaveHeight"].values, float)
        wh = np.interp(tg.astype(float), t.astype(float), hs)
        ctx.close("C14.dataframe:linear", gh[inside], wh[inside], atol=1e-9, rtol=1e-9, case=c, key="C14:dataframe:linear")
    # (3) track
    times = [datetime.fromtimestamp(int(x), tz=timezone.utc) for x in t]
    ok, tr = guarded(ctx, "C14.no-exception", lambda: Track.from_arrays(lat, lon, times, "id"), c, key="C14:exception:track")
    if ok:
        ok, tr2 = guarded(ctx, "C14.no-exception",
                          lambda: tr.interpolate([datetime.fromtimestamp(int(x), tz=timezone.utc) for x in tg]), c,
                          key="C14:exception:track")
        if ok:
            glon, glat = np.asarray(tr2.longitude, float), np.asarray(tr2.latitude, float)
            want_lon = shortest_arc_linear(t.astype(float), lon, tg.astype(float))
            want_lon = np.where(tg < t[0], lon[0], np.where(tg > t[-1], lon[-1], want_lon))
            if crossing:
                ctx.count("C14.track_points_across_antimeridian")
            good = glon.shape == want_lon.shape and bool(np.all(np.abs(circ_diff(glon, want_lon)) <= 1e-9))
            ctx.check("C14.track:longitude", good, c, {"got": glon, "want": want_lon}, key="C14:track:longitude")
            wl = np.interp(tg.astype(float), t.astype(float), lat)
            ctx.close("C14.track:latitude", glat, wl, atol=1e-9, rtol=1e-9, case=c, key="C14:track:latitude")


# ------------------------------------------------------------------ D: gridded data at track points
def case_points(rng):
    nt, nla = int(rng.integers(2, 5)), int(rng.integers(2, 6))
    nlo = int(rng.choice([8, 12, 36]))
    lon0 = float(rng.choice([-180.0, 0.0, -177.5, 2.5]))
    lon = lon0 + np.arange(nlo) * 360.0 / nlo
    lat = np.sort(rng.uniform(-70, 70, nla))
    t = np.cumsum(rng.integers(600, 7200, nt)).astype("int64") + int(rng.integers(0, 10 ** 9))
    vals = rng.normal(0, 2, (nt, nla, nlo))
    m = int(rng.integers(2, 9))
    pt = np.sort(rng.integers(t[0], t[-1] + 1, m)).astype("int64")
    pla = rng.uniform(lat[0], lat[-1], m)
    # a track that crosses the antimeridian
    start = 180 - rng.uniform(0, 15)
    plo = start + np.cumsum(rng.uniform(0, 6, m))
    sense = str(rng.choice(["east", "west"]))
    if sense == "west":
        plo = -plo
    style = str(rng.choice(["wrap180", "0-360", "unwrapped"]))
    if style == "wrap180":
        plo = (plo + 180) % 360 - 180
    elif style == "0-360":
        plo = plo % 360
    if rng.uniform() < 0.2:
        pla[0] = lat[-1] + 1.0  # one point outside the latitude range -> NaN expected there
    return {"part": "points", "time": t, "lat": lat, "lon": lon, "values": vals, "pt": pt, "pla": pla, "plo": plo,
            "sense": sense, "style": style}


def judge_points(ctx, c):
    import xarray
    from scipy.interpolate import RegularGridInterpolator
    from ocean_science_utilities.interpolate.dataset import interpolate_at_points
    t = np.asarray(c["time"]).astype("int64")
    lat, lon, vals = np.asarray(c["lat"], float), np.asarray(c["lon"], float), np.asarray(c["values"], float)
    pt, pla, plo = np.asarray(c["pt"]).astype("int64"), np.asarray(c["pla"], float), np.asarray(c["plo"], float)
    t64 = t.astype("datetime64[s]").astype("datetime64[ns]")
    ds = xarray.Dataset({"v": (("time", "latitude", "longitude"), vals)},
                        coords={"time": t64, "latitude": lat, "longitude": lon})
    ctx.count("C14.track_points_across_antimeridian")
    ctx.case(("points", c["sense"], c["style"], len(lon), float(lon[0])), nontrivial=True,
             sample={"lon_grid": lon[:4], "track_lon": plo[:6], "track_lat": pla[:6]})
    points = {"time": pt.astype("datetime64[s]").astype("datetime64[ns]"), "latitude": pla, "longitude": plo}
    ok, out = guarded(ctx, "C14.no-exception",
                      lambda: interpolate_at_points(ds, dict(points), independent_variable="time",
                                                    periodic_coordinates={"longitude": 360}), c,
                      key="C14:exception:interpolate_at_points")
    if not ok:
        return
    got = np.asarray(out["v"].values, float)
    lone = np.concatenate([lon - 360, lon, lon + 360])
    ve = np.concatenate([vals, vals, vals], axis=2)
    rgi = RegularGridInterpolator((t.astype(float), lat, lone), ve, bounds_error=False, fill_value=np.nan)
    red = (plo - lon[0]) % 360 + lon[0]
    want = rgi(np.stack([pt.astype(float), pla, red], axis=-1))
    if got.shape != want.shape:
        ctx.check("C14.at_points==trilinear-periodic", False, c, {"shape": got.shape}, key="C14:at_points")
        return
    ctx.close("C14.at_points==trilinear-periodic", got, want, atol=1e-9 * float(np.max(np.abs(vals))), rtol=1e-9,
              case=c, key="C14:at_points")
    ok2 = "time" in out.coords and np.array_equal(out["time"].values.astype("datetime64[ns]"), points["time"])
    ctx.check("C14.at_points:coords", bool(ok2), c, key="C14:at_points:coords")
    # the same track on a *direction* field (uniform in space, turning in time across the seam), through the data-array
    # entry point with the data period given and the discontinuity left at its default, and given explicitly
    from ocean_science_utilities.interpolate.dataarray import interpolate_track_data_arrray
    rngd = np.random.default_rng(int(abs(float(vals.flat[0])) * 1e9) % (2 ** 32))
    th = (rngd.uniform(0, 360) + np.cumsum(rngd.uniform(-120, 120, len(t)))) % 360.0
    da = xarray.DataArray(np.broadcast_to(th[:, None, None], vals.shape).copy(), dims=("time", "latitude", "longitude"),
                          coords={"time": t64, "latitude": lat, "longitude": lon}, name="meanDirection")
    inside = (pla >= lat[0]) & (pla <= lat[-1])
    j0 = np.clip(np.searchsorted(t, pt, side="right") - 1, 0, len(t) - 2)
    wgt = (pt - t[j0]) / (t[j0 + 1] - t[j0])
    a0, a1 = th[j0], th[j0 + 1]
    delta = circ_diff(a1, a0)
    for kw, label in (({"period_data": 360}, "default-discont"), ({"period_data": 360, "discont": 360}, "discont=360")):
        okd, outd = guarded(ctx, "C14.no-exception",
                            lambda: interpolate_track_data_arrray(da, {k_: np.array(v_) for k_, v_ in points.items()}, "time",
                                                                  {"longitude": 360}, **kw), c,
                            key="C14:exception:interpolate_track_data_arrray")
        if not okd:
            continue
        g = np.asarray(outd.values, float)
        if g.shape != pt.shape:
            ctx.check("C14.track-direction-field:range", False, c, {"shape": g.shape}, key="C14:track-dir:shape")
            continue
        ctx.count("C14.direction_fields_at_track_points")
        fin = inside & np.isfinite(g)
        ctx.check("C14.track-direction-field:range", bool(np.all((g[fin] >= 0) & (g[fin] < 360))), c,
                  {"call": label, "got": g}, key="C14:track-dir:range:" + label)
        R = np.abs((1 - wgt) * np.exp(1j * np.deg2rad(a0)) + wgt * np.exp(1j * np.deg2rad(a1)))
        tol = 3e-5 / np.maximum(R, 1e-6) + 1e-6
        off = circ_diff(g, a0)
        judged = fin & (np.abs(delta) < 179.9)
        on_arc = (np.sign(delta) * off >= -tol) & (np.sign(delta) * off <= np.abs(delta) + tol)
        ctx.check("C14.track-direction-field:on-shorter-arc", bool(np.all(on_arc | ~judged)), c,
                  {"call": label, "left": a0, "right": a1, "w": wgt, "got": g}, key="C14:track-dir:arc:" + label)


# ------------------------------------------------------------------ E: interpolate_dataset (geometry) with direction data
def case_geometry(rng):
    nt, nla = int(rng.integers(2, 5)), int(rng.integers(2, 5))
    nlo = int(rng.choice([8, 12, 24]))
    lon = float(rng.choice([0.0, -180.0])) + np.arange(nlo) * 360.0 / nlo
    lat = np.sort(rng.uniform(-60, 60, nla))
    t = np.cumsum(rng.integers(600, 7200, nt)).astype("int64") + int(rng.integers(0, 10 ** 9))
    nvar = int(rng.choice([1, 2, 3]))
    fields = []
    for _ in range(nvar):
        a = np.empty((nt, nlo))
        for k in range(nt):
            a[k], _ = angular_series(rng, nlo)
        fields.append(a % 360)
    # track: on a latitude node, longitudes anywhere (also across the wrap bin), times = dataset times
    ilat = int(rng.integers(0, nla))
    plo = rng.uniform(-400, 400, nt)
    if rng.uniform() < 0.5:
        plo[0] = lon[-1] + rng.uniform(0.1, 0.9) * 360.0 / nlo  # inside the wrap bin
    return {"part": "geometry", "time": t, "lat": lat, "lon": lon, "fields": fields, "ilat": ilat, "plo": plo,
            "hs": rng.uniform(0, 3, (nt, nla, nlo)), "pdata": [None, None, "empty", "first"][int(rng.integers(0, 4))]}


def judge_geometry(ctx, c):
    import xarray
    from datetime import datetime, timezone
    from ocean_science_utilities.interpolate.dataset import interpolate_dataset
    from ocean_science_utilities.interpolate.geometry import Track
    t = np.asarray(c["time"]).astype("int64")
    lat, lon = np.asarray(c["lat"], float), np.asarray(c["lon"], float)
    nt, nla, nlo = len(t), len(lat), len(lon)
    names = ["meanDirection", "peakDirection", "wind_direction"][: len(c["fields"])]
    data = {}
    for nm, a in zip(names, c["fields"]):
        data[nm] = (("time", "latitude", "longitude"), np.repeat(np.asarray(a, float)[:, None, :], nla, axis=1))
    data["significantWaveHeight"] = (("time", "latitude", "longitude"), np.asarray(c["hs"], float))
    t64 = t.astype("datetime64[s]").astype("datetime64[ns]")
    ds = xarray.Dataset(data, coords={"time": t64, "latitude": lat, "longitude": lon})
    plat = np.full(nt, lat[int(c["ilat"])])
    plo = np.asarray(c["plo"], float)
    times = [datetime.fromtimestamp(int(x), tz=timezone.utc) for x in t]
    ctx.case(("geometry", len(names), nlo, float(lon[0])), nontrivial=True,
             sample={"direction_variables": names, "track_lon": plo[:5], "lon_grid": lon[:4]})
    ctx.count("C14.geometry_cases_with_%d_direction_variables" % len(names))
    # the caller may pass periodic_data itself (empty, or naming only some variables): variables whose name contains
    # "direction" are angles all the same
    pd_kind = c.get("pdata")
    kw = {}
    if pd_kind == "empty":
        kw = {"periodic_data": {}}
    elif pd_kind == "first" and names:
        kw = {"periodic_data": {names[0]: (360, 360)}}
    ctx.count(f"C14.geometry_periodic_data_argument:{pd_kind}")
    ok, out = guarded(ctx, "C14.no-exception", lambda: interpolate_dataset(ds, Track.from_arrays(plat, plo, times, "trk"), **kw), c,
                      key="C14:exception:interpolate_dataset")
    if not ok:
        return
    df = list(out.values())[0]
    red = (plo - lon[0]) % 360 + lon[0]
    step = 360.0 / nlo
    i0 = np.minimum(np.floor((red - lon[0]) / step).astype(int), nlo - 1)
    i1 = (i0 + 1) % nlo
    w = (red - lon[i0]) / step
    for nm, a in zip(names, c["fields"]):
        a = np.asarray(a, float)
        if nm not in df.columns or len(df[nm]) != nt:
            ctx.check("C14.geometry:direction-on-shorter-arc", False, c, {"missing": nm}, key="C14:geometry:columns")
            continue
        g = np.asarray(df[nm].values, float)
        a0, a1 = a[np.arange(nt), i0], a[np.arange(nt), i1]
        delta = circ_diff(a1, a0)
        R = np.abs((1 - w) * np.exp(1j * np.deg2rad(a0)) + w * np.exp(1j * np.deg2rad(a1)))
        tol = 3e-5 / np.maximum(R, 1e-6) + 1e-6
        off = circ_diff(g, a0)
        judged = np.abs(delta) < 179.9
        on_arc = (np.sign(delta) * off >= -tol) & (np.sign(delta) * off <= np.abs(delta) + tol)
        ctx.check("C14.geometry:direction-on-shorter-arc", bool(np.all(on_arc | ~judged)), c,
                  {"variable": nm, "left": a0, "right": a1, "w": w, "got": g}, key="C14:geometry:arc:" + nm)
        ctx.check("C14.geometry:direction-range", bool(np.all((g >= 0) & (g < 360))), c, {"variable": nm, "got": g},
                  key="C14:geometry:range")
    # a plain variable: periodic longitude coordinate, linear
    hs = np.asarray(c["hs"], float)[np.arange(nt), int(c["ilat"])]
    want = (1 - w) * hs[np.arange(nt), i0] + w * hs[np.arange(nt), i1]
    if "significantWaveHeight" in df.columns and len(df) == nt:
        ctx.close("C14.geometry:plain-variable-periodic-longitude", np.asarray(df["significantWaveHeight"].values, float),
                  want, atol=1e-9, rtol=1e-9, case=c, key="C14:geometry:plain")


JUDGES = {"coord": judge_coord, "angular": judge_angular, "series": judge_series, "points": judge_points,
          "geometry": judge_geometry}


def run_shard(ctx, shard):
    rng = ctx.rng()
    gens = [case_coord, case_angular, case_series, case_points, case_geometry]
    for i in range(shard["n"]):
        c = gens[i % 5](rng)
        JUDGES[c["part"]](ctx, c)


def replay(ctx, case):
    JUDGES[case["part"]](ctx, case)
