"""C06 - estimators reproduce the input moments; solvers agree; output rotates with input."""
from __future__ import annotations

import ast
import os

import numpy as np

from ..core import guarded, REPO

PROPERTY = "C06"
LEVEL = "exploration"
RULE = ("moments of von-Mises mixtures (1-2 lobes + background) whose circular spread is >= 1.5 direction bins, mean "
        "directions in all quadrants, N in {24,36,72,144}; for each case the distribution is estimated with MEM, "
        "MEM2/Newton and MEM2/scipy, the four moments are recomputed from the returned distribution on its own grid; "
        "rotation by k bins (quick: 4 random k, thorough: all k) and mirror are applied to the *input moments* and the "
        "outputs compared with the rolled / mirrored original; the hard cases are read from "
        "tests/spectrum/estimators/test_mem2.py at run time and run with all rotations and the mirror; the constraint "
        "Jacobian is compared with central finite differences at random multipliers |lambda|<=10. distinct = (N, "
        "lobes, width class, transformation) ; non-trivial = non-isotropic input.")
ASSUMPTIONS = ["four-moment Euclidean error bound 0.01 (+1e-9) for MEM2 as stated; Newton vs scipy <= 0.02 (triangle)",
               "MEM is compared with an independent closed-form Lygre-Krogstad implementation; its coarse-grid moment "
               "error is quadrature error of that exactly known function (reference verified on a 4096-point grid)"]
REQUIRED_MONITORS = ["C06.mem2:newton:moment-error<=0.01", "C06.mem2:scipy:moment-error<=0.01",
                     "C06.newton-vs-scipy<=0.02", "C06.mem==closed-form", "C06.mem:reference-reproduces-moments",
                     "C06.rotation:mem", "C06.rotation:mem2:newton", "C06.rotation:mem2:scipy", "C06.mirror:mem",
                     "C06.mirror:mem2:newton", "C06.jacobian==finite-difference", "C06.jacobian:symmetric",
                     "C06.hard-cases:newton", "C06.hard-cases:scipy"]
REQUIRED_COUNTERS = {"C06.hard_cases_read_from_tests": 5}
TIMEOUT = {"quick": 900, "thorough": 3600}
N = {"quick": (12, 40), "thorough": (15, 400)}
WARMUP_SHARD = {"n": 1, "warmup": True, "allk": False}
NDS = [24, 36, 72, 144]


def plan(tier, seed):
    ns, per = N[tier]
    shards = [{"n": per, "allk": tier == "thorough"} for _ in range(ns)]
    shards.append({"hard": True, "allk": True})
    if tier == "thorough":
        shards.append({"n": per // 4, "allk": False, "env": {"NUMBA_BOUNDSCHECK": "1"}})
    return shards


def read_hard_cases():
    path = os.path.join(REPO, "tests", "spectrum", "estimators", "test_mem2.py")
    tree = ast.parse(open(path).read())
    cases = []
    for node in ast.walk(tree):
        if isinstance(node, ast.FunctionDef) and node.name == "get_case":
            for sub in ast.walk(node):
                if isinstance(sub, ast.Assign) and getattr(sub.targets[0], "id", None) == "moments" \
                        and isinstance(sub.value, ast.List):
                    cases.append([float(eval(compile(ast.Expression(e), "<case>", "eval"), {})) for e in sub.value.elts])
    return cases


def mixture_moments(rng, nd, bg=None):
    th = np.linspace(0, 2 * np.pi, 4096, endpoint=False)
    binw = 2 * np.pi / nd
    lobes = int(rng.choice([1, 1, 2]))
    D = np.zeros_like(th)
    for _ in range(lobes):
        # circular std of a von Mises ~ 1/sqrt(kappa) for large kappa; require spread >= 1.5 bins
        sigma = rng.uniform(1.5, 8.0) * binw
        sigma = min(sigma, 1.2)
        kappa = 1.0 / sigma ** 2
        m = rng.uniform(0, 2 * np.pi)
        w = np.exp(kappa * (np.cos(th - m) - 1))
        D += rng.uniform(0.3, 1.0) * w / w.sum()
    D = D / D.sum()
    bg = rng.uniform(0, 0.3) if bg is None else bg
    D = (1 - bg) * D + bg / len(th)
    mom = np.array([np.sum(D * np.cos(th)), np.sum(D * np.sin(th)), np.sum(D * np.cos(2 * th)), np.sum(D * np.sin(2 * th))])
    return mom, lobes


def lk_closed_form(theta, mom):
    """Lygre & Krogstad (1986) eq. 13, continuous density per radian"""
    c1, c2 = mom[0] + 1j * mom[1], mom[2] + 1j * mom[3]
    p1 = (c1 - c2 * np.conj(c1)) / (1 - abs(c1) ** 2)
    p2 = c2 - c1 * p1
    num = 1 - p1 * np.conj(c1) - p2 * np.conj(c2)
    den = np.abs(1 - p1 * np.exp(-1j * theta) - p2 * np.exp(-2j * theta)) ** 2
    return np.real(num) / den / (2 * np.pi)


def recomputed(D, d_deg):
    """moments of a distribution per degree on a uniform grid"""
    th = np.deg2rad(d_deg)
    w = 360.0 / len(d_deg)
    return np.array([np.sum(D * np.cos(th)) * w, np.sum(D * np.sin(th)) * w, np.sum(D * np.cos(2 * th)) * w,
                     np.sum(D * np.sin(2 * th)) * w])


def rotate_moments(mom, phi):
    c1 = (mom[0] + 1j * mom[1]) * np.exp(1j * phi)
    c2 = (mom[2] + 1j * mom[3]) * np.exp(2j * phi)
    return np.array([c1.real, c1.imag, c2.real, c2.imag])


def estimate(mom, d, method, sm):
    from ocean_science_utilities.wavespectra.estimators.estimate import estimate_directional_distribution as edd
    kw = {} if sm is None else {"solution_method": sm}
    a = [np.array([m]) for m in mom]
    return np.asarray(edd(a[0], a[1], a[2], a[3], d, method, **kw), float)[0]


VARS = [("mem", None), ("mem2", "newton"), ("mem2", "scipy")]


def judge(ctx, c, hard=False):
    mom = np.asarray(c["moments"], float)
    nd = int(c["nd"])
    d = float(c.get("start", 0.0)) + np.arange(nd) * 360.0 / nd
    out = {}
    # precondition of the fidelity clause: "a distribution that the direction grid resolves". For the shipped
    # hard cases that is decided by the circular spread sqrt(2(1-r)) of the moments being >= 1.3 bins (cases 0-3,
    # the ones the repository's own test asserts, have 1.35..3.2 bins; case 4 has 0.61 bins).
    spread_bins = float(np.sqrt(max(0.0, 2 * (1 - np.hypot(mom[0], mom[1])))) / (2 * np.pi / nd))
    resolved = (not hard) or spread_bins >= 1.3
    if hard and not resolved:
        ctx.count("C06.hard_cases_unresolved_by_grid(fidelity not judged)")
    ctx.case((nd, c.get("lobes"), "hard" if hard else "mixture"), nontrivial=bool(np.hypot(mom[0], mom[1]) > 0.02),
             sample={"moments": mom, "N": nd})
    for method, sm in VARS:
        tag = method if sm is None else f"{method}:{sm}"
        wit = lambda: dict(c, method=tag)  # noqa
        ok, D = guarded(ctx, "C06.no-exception", lambda: estimate(mom, d, method, sm), wit, key=f"C06:raised:{tag}")
        if not ok:
            continue
        out[tag] = D
        err = float(np.linalg.norm(recomputed(D, d) - mom))
        if method == "mem2" and not resolved:
            pass
        elif method == "mem2":
            name = f"C06.{tag}:moment-error<=0.01" if not hard else f"C06.hard-cases:{sm}"
            ctx.check(name, err <= 0.01 + 1e-9, wit, {"error": err, "moments": mom}, key=f"C06:fidelity:{tag}")
            ctx.ratio(name, err, 0.01)
        else:
            ref = lk_closed_form(np.deg2rad(d), mom) * np.pi / 180.0
            ref = ref / (np.sum(ref) * 360.0 / nd)
            ctx.close("C06.mem==closed-form", D, ref, atol=1e-12 * float(ref.max()), rtol=1e-9, case=wit, key="C06:mem")
            th = np.linspace(0, 2 * np.pi, 4096, endpoint=False)
            dens = lk_closed_form(th, mom)
            w = 2 * np.pi / 4096
            fine = np.array([np.sum(dens) * w, np.sum(dens * np.cos(th)) * w, np.sum(dens * np.sin(th)) * w,
                             np.sum(dens * np.cos(2 * th)) * w, np.sum(dens * np.sin(2 * th)) * w])
            if not hard:
                ctx.close("C06.mem:reference-reproduces-moments", fine, np.concatenate([[1.0], mom]), atol=1e-9,
                          case=wit, key="C06:mem:reference")
            ctx.count("C06.mem_coarse_grid_moment_error_x1e4", int(1e4 * np.linalg.norm(recomputed(D, d) - mom)))
    if "mem2:newton" in out and "mem2:scipy" in out and resolved:
        diff = float(np.linalg.norm(recomputed(out["mem2:newton"], d) - recomputed(out["mem2:scipy"], d)))
        ctx.check("C06.newton-vs-scipy<=0.02", diff <= 0.02 + 1e-9, lambda: dict(c), {"difference": diff},
                  key="C06:newton-vs-scipy")
        ctx.ratio("C06.newton-vs-scipy<=0.02", diff, 0.02)
    # rotation / mirror equivariance
    ks = list(range(nd)) if c.get("allk") else [int(k) for k in c["ks"]]
    for tag, D in out.items():
        method, _, sm = tag.partition(":")
        sm = sm or None
        rtol = 1e-4 if sm == "scipy" else 1e-6
        scale = float(D.max())
        if sm == "scipy" and (c.get("allk") and not hard):
            kk = ks[:: max(1, nd // 6)]  # scipy root finding is slow: subsample rotations
        else:
            kk = ks
        for k in kk:
            m2 = rotate_moments(mom, k * 2 * np.pi / nd)
            wit = lambda: dict(c, method=tag, k=k)  # noqa
            ok, Dk = guarded(ctx, "C06.no-exception", lambda: estimate(m2, d, method, sm), wit, key=f"C06:raised:{tag}")
            if ok:
                ctx.close(f"C06.rotation:{tag}", Dk, np.roll(D, k), atol=rtol * scale, rtol=rtol, case=wit,
                          key=f"C06:rotation:{tag}")
        mm = mom * np.array([1, -1, 1, -1])
        wit = lambda: dict(c, method=tag, mirror=True)  # noqa
        ok, Dm = guarded(ctx, "C06.no-exception", lambda: estimate(mm, d, method, sm), wit, key=f"C06:raised:{tag}")
        if ok:
            # index j(i) with d[j] == -d[i] (mod 360); grids that are not closed under negation have no mirror partner
            dev = np.abs((d[None, :] + d[:, None] + 180.0) % 360.0 - 180.0)
            idx = np.argmin(dev, axis=1)
            if np.all(dev[np.arange(nd), idx] < 1e-9):
                ctx.close(f"C06.mirror:{tag}", Dm, D[idx], atol=rtol * scale, rtol=rtol, case=wit, key=f"C06:mirror:{tag}")


def judge_batch(ctx, c):
    """several frequencies in one call (a swell peak next to a wind sea from elsewhere, clean lobes without
    background next to broad ones): every member must reproduce its own moments, the two solvers must agree per
    member, and a member's result must not depend on its neighbours in the batch"""
    from ocean_science_utilities.wavespectra.estimators.estimate import estimate_directional_distribution as edd
    M = np.asarray(c["batch"], float)  # (nf, 4)
    nd = int(c["nd"])
    d = np.arange(nd) * 360.0 / nd
    nf = M.shape[0]
    lead = (1, nf) if c.get("two_dims") else (nf,)
    args = [M[:, j].reshape(lead) for j in range(4)]
    ctx.case(("batch", nd, nf, bool(c.get("two_dims"))), nontrivial=nf >= 2, sample={"N": nd, "moments": M})
    out = {}
    for method, sm in (("mem2", "newton"), ("mem2", "scipy")):
        tag = f"{method}:{sm}"
        wit = lambda: dict(c, method=tag)  # noqa
        ok, D = guarded(ctx, "C06.no-exception", lambda: edd(*args, d, method, solution_method=sm), wit, key=f"C06:raised:{tag}")
        if not ok:
            continue
        D = np.asarray(D, float).reshape(nf, nd)
        out[tag] = D
        for i in range(nf):
            err = float(np.linalg.norm(recomputed(D[i], d) - M[i]))
            ctx.check(f"C06.batch:{tag}:moment-error<=0.01", err <= 0.01 + 1e-9, lambda: dict(c, method=tag, member=i),
                      {"error": err, "member": i, "moments": M[i]}, key=f"C06:batch:fidelity:{tag}")
            ok1, D1 = guarded(ctx, "C06.no-exception", lambda: estimate(M[i], d, method, sm), wit, key=f"C06:raised:{tag}")
            if ok1:
                rtol = 1e-4 if sm == "scipy" else 1e-6
                ctx.close(f"C06.batch-member==single:{tag}", D[i], D1, atol=rtol * float(D1.max()), rtol=rtol,
                          case=lambda: dict(c, method=tag, member=i), key=f"C06:batch:single:{tag}")
    if len(out) == 2:
        for i in range(nf):
            diff = float(np.linalg.norm(recomputed(out["mem2:newton"][i], d) - recomputed(out["mem2:scipy"][i], d)))
            ctx.check("C06.batch:newton-vs-scipy<=0.02", diff <= 0.02 + 1e-9, lambda: dict(c, member=i), {"difference": diff},
                      key="C06:batch:newton-vs-scipy")


def make_batch(rng, nd):
    nf = int(rng.integers(2, 7))
    rows = [mixture_moments(rng, nd, bg=(float(rng.choice([0.0, 0.002, 0.007])) if rng.uniform() < 0.7 else None))[0]
            for _ in range(nf)]
    return {"batch": np.array(rows), "nd": nd, "two_dims": bool(rng.uniform() < 0.5)}


def judge_jacobian(ctx, c):
    from ocean_science_utilities.wavespectra.estimators import mem2 as m2
    nd = int(c["nd"])
    d = np.deg2rad(np.arange(nd) * 360.0 / nd)
    tw = np.stack([np.cos(d), np.sin(d), np.cos(2 * d), np.sin(2 * d)])
    inc = np.full(nd, 2 * np.pi / nd)
    lam = np.asarray(c["lambda"], float)
    mom = np.asarray(c["moments"], float)
    ctx.case(("jacobian", nd), nontrivial=True, sample={"lambda": lam, "N": nd})
    ok, J = guarded(ctx, "C06.no-exception", lambda: np.array(m2.mem2_jacobian(lam, tw, inc, np.empty((4, 4)))), c,
                    key="C06:raised:jacobian")
    if not ok:
        return
    ctx.close("C06.jacobian:symmetric", J, J.T, atol=1e-12 * float(np.max(np.abs(J))), rtol=1e-12, case=c,
              key="C06:jacobian:symmetric")
    h = 1e-6
    FD = np.empty((4, 4))
    for n in range(4):
        e = np.zeros(4)
        e[n] = h
        FD[:, n] = (np.asarray(m2.moment_constraints(lam + e, tw, mom, inc)) -
                    np.asarray(m2.moment_constraints(lam - e, tw, mom, inc))) / (2 * h)
    ctx.close("C06.jacobian==finite-difference", J, FD, atol=1e-5 * float(np.max(np.abs(FD))) + 1e-9, rtol=1e-5, case=c,
              key="C06:jacobian")
    # direction increments: midpoint rule on the circle sums to 2 pi and is positive
    from ocean_science_utilities.wavespectra.estimators.utils import get_direction_increment
    start = float(c.get("start", 0.0))
    inc2 = np.asarray(get_direction_increment(d + start))
    ctx.close("C06.direction-increment", inc2, inc, atol=1e-12, case=c, key="C06:increment")


def run_shard(ctx, shard):
    rng = ctx.rng()
    if shard.get("hard"):
        cases = read_hard_cases()
        ctx.count("C06.hard_cases_read_from_tests", len(cases))
        for mom in cases:
            judge(ctx, {"moments": np.array(mom), "nd": 36, "allk": True, "ks": []}, hard=True)
        return
    for i in range(shard["n"]):
        nd = int(rng.choice(NDS))
        mom, lobes = mixture_moments(rng, nd)
        c = {"moments": mom, "nd": nd, "lobes": lobes, "allk": bool(shard["allk"]) and nd <= 72,
             "ks": [int(k) for k in rng.integers(0, nd, 4)],
             # the grid need not start at 0: half a bin off, or written from -180
             "start": float(rng.choice([0.0, 0.0, 0.5 * 360.0 / nd, -180.0, 137.25]))}
        judge(ctx, c)
        lam = rng.uniform(-1, 1, 4)
        lam = lam / np.linalg.norm(lam) * rng.uniform(0, 10)
        judge_jacobian(ctx, {"nd": nd, "lambda": lam, "moments": mom, "start": float(rng.uniform(-3, 3))})
        if i % 2 == 0 and not shard.get("warmup"):
            judge_batch(ctx, make_batch(rng, nd))
        if i % 8 == 5 and not shard.get("warmup"):
            # a call with the rarely used solver_config keyword: it must not change what the calls after it return
            from ocean_science_utilities.wavespectra.estimators.estimate import estimate_directional_distribution as edd
            cfg = [{"atol": 0.1}, {"atol": 0.05, "max_iter": 5}, {"rcond": 1e-2}][int(rng.integers(0, 3))]
            a = [np.array([m]) for m in mom]
            try:
                edd(a[0], a[1], a[2], a[3], np.arange(nd) * 360.0 / nd, "mem2",
                    solution_method=str(rng.choice(["newton", "scipy", "approximate"])), solver_config=cfg)
            except Exception:
                pass
            ctx.count("C06.configured_calls_interleaved")


def replay(ctx, case):
    if "lambda" in case:
        judge_jacobian(ctx, case)
    elif "batch" in case:
        judge_batch(ctx, case)
    else:
        judge(ctx, case, hard=case.get("lobes") is None)
