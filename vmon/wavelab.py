"""Shared workload generator for the wind-wave source term properties (C08-C11)."""
from __future__ import annotations

import warnings

import numpy as np

G = 9.81


def jonswap(f, fp, hs, gamma=3.3):
    s = np.where(f <= fp, 0.07, 0.09)
    a = np.exp(-0.5 * ((f - fp) / (s * fp)) ** 2)
    with np.errstate(divide="ignore", over="ignore", invalid="ignore"):
        e = np.where(f > 0, f ** -5.0 * np.exp(-1.25 * (f / fp) ** -4.0) * gamma ** a, 0.0)
    m0 = np.sum(0.5 * (e[1:] + e[:-1]) * np.diff(f))
    return e * (hs / 4.0) ** 2 / m0


def spreading(d_deg, mean_deg, s):
    c = np.cos(np.deg2rad(d_deg - mean_deg) / 2.0)
    D = np.abs(c) ** (2 * s)
    return D / (D.sum() * 360.0 / len(d_deg))


def make_case(rng, kind=None, nd=None, npoints=None, positive=False):
    """kind: windsea | mixed | random | swell"""
    kind = str(kind or rng.choice(["windsea", "windsea", "mixed", "random", "veering"]))
    nd = int(nd or rng.choice([16, 24, 36]))
    nf = int(rng.integers(20, 41))
    npnt = int(npoints or rng.integers(1, 9))
    f = np.linspace(rng.uniform(0.03, 0.05), rng.uniform(0.5, 1.0), nf)
    if kind == "young":
        f = np.linspace(rng.uniform(0.05, 0.1), rng.uniform(1.2, 1.5), nf)
    d = np.arange(nd) * 360.0 / nd
    E = np.zeros((npnt, nf, nd))
    u10 = np.empty(npnt)
    wdir = np.empty(npnt)
    for i in range(npnt):
        u10[i] = float(rng.uniform(1, 40)) if rng.uniform() < 0.3 else float(rng.uniform(5, 20))
        r = rng.uniform()
        if r < 0.3:
            wdir[i] = float(rng.integers(0, nd)) * 360.0 / nd  # exactly on a bin
        elif r < 0.5:
            wdir[i] = (float(rng.integers(0, nd)) + 0.5) * 360.0 / nd  # exactly between two bins
        else:
            wdir[i] = float(rng.uniform(0, 360))
        if kind == "young":
            # very young, short-fetch sea in a light wind: peak at 0.55-0.7 Hz, steep enough to break
            u10[i] = float(rng.uniform(3.5, 7.0))
            fp = float(rng.uniform(0.55, 0.7))
            lp = G / (2 * np.pi * fp ** 2)
            hs = float(lp * rng.uniform(0.04, 0.07))
            e = jonswap(f, fp, hs, gamma=float(rng.uniform(1.0, 3.3)))
            E[i] = e[:, None] * spreading(d, wdir[i] + rng.uniform(-20, 20), float(rng.uniform(2, 8)))[None, :]
        elif kind in ("windsea", "mixed", "veering"):
            # young, steep wind sea roughly aligned with the wind
            fp = float(np.clip(G / (2 * np.pi * u10[i]) * rng.uniform(0.9, 1.6), 0.08, 0.35))
            lp = G / (2 * np.pi * fp ** 2)
            hs = float(np.clip(lp * rng.uniform(0.02, 0.06), 0.2, 12.0))  # significant steepness 2..6 %
            if rng.uniform() < 0.3:
                # a sea raised by a stronger wind than the one now blowing: wind dropped to 50-80 %
                u10[i] *= float(rng.uniform(0.5, 0.8))
            e = jonswap(f, fp, hs, gamma=float(rng.uniform(1.0, 5.0)))
            E[i] = e[:, None] * spreading(d, wdir[i] + rng.uniform(-30, 30), float(rng.uniform(2, 12)))[None, :]
            if kind == "veering":
                # a turning wind: the short waves have veered by 20..80 degrees relative to the peak, so that the
                # dissipation-weighted direction, the stress direction and the wind direction all differ
                veer = float(rng.uniform(20, 80) * rng.choice([-1, 1]))
                base_dir = wdir[i] + rng.uniform(-20, 20)
                spr = float(rng.uniform(3, 8))
                for jf in range(nf):
                    d0 = base_dir + veer * max(f[jf] - fp, 0.0) / max(f[-1] - fp, 1e-6)
                    E[i, jf, :] = e[jf] * spreading(d, d0, spr)
            if kind == "mixed":
                es = jonswap(f, float(rng.uniform(0.06, 0.09)), float(rng.uniform(0.5, 2.5)), gamma=6.0)
                E[i] += es[:, None] * spreading(d, rng.uniform(0, 360), 25.0)[None, :]
        elif kind == "swell":
            es = jonswap(f, float(rng.uniform(0.06, 0.09)), float(rng.uniform(0.2, 0.8)), gamma=8.0)
            E[i] = es[:, None] * spreading(d, rng.uniform(0, 360), 30.0)[None, :]
        else:
            base = jonswap(f, float(rng.uniform(0.1, 0.3)), float(rng.uniform(0.5, 4)), 2.0)
            E[i] = base[:, None] / 360.0 * rng.uniform(0, 2, (nf, nd)) ** 2
            E[i] *= rng.uniform(0, 1, (nf, nd)) > 0.35  # zero bins
    if positive:
        E = E + 1e-9 * np.max(E)
    depth = np.where(rng.uniform(0, 1, npnt) < 0.6, np.inf, 10 ** rng.uniform(0.7, 3, npnt))
    return {"kind": kind, "freq": f, "dir": d, "E": E, "u10": u10, "wdir": wdir, "depth": depth}


def build(c, E=None, idx=None):
    """FrequencyDirectionSpectrum with a single leading 'time' dimension; idx selects points"""
    from ocean_science_utilities.wavespectra.spectrum import create_2d_spectrum
    E = np.asarray(c["E"] if E is None else E, float)
    depth = np.asarray(c["depth"], float)
    if idx is not None:
        E, depth = E[idx], depth[idx]
    n = E.shape[0]
    with warnings.catch_warnings():
        warnings.simplefilter("ignore")
        return create_2d_spectrum(np.asarray(c["freq"], float), np.asarray(c["dir"], float), E,
                                  np.arange(n) * 3600, np.zeros(n), np.zeros(n), depth=depth)


def da(values):
    import xarray
    return xarray.DataArray(np.asarray(values, float), dims="time")


GEN_PARAM_SETS = [None,
                  {"growth_parameter_betamax": 1.2, "wave_age_tuning_parameter": 0.008},
                  {"charnock_constant": 0.015, "viscous_stress_parameter": 0.1}]
DIS_PARAM_SETS = {"st4": [None, {"saturation_breaking_constant": 3.0e-5, "saturation_threshold": 0.0008}],
                  "st6": [None], "romero": [None]}


def make_balance(gen="st4", dis="st4", gen_params=None, dis_params=None):
    from ocean_science_utilities.wavephysics.balance.factory import create_balance
    b = create_balance(gen, dis)
    if gen_params:
        b.generation.update_parameters(gen_params)
    if dis_params:
        b.dissipation.update_parameters(dis_params)
    return b


def steps(s):
    return np.asarray(s.frequency_step.values, float), np.asarray(s.direction_step.values, float)
